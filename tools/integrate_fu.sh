#!/bin/bash
# usage: integrate_fu.sh <sandbox> <id>... — follow-up agents edit tracked contract files in place: copy them over /repo's
a=$1; shift
wt=/tmp/wt/$a; vf=/tmp/vf/$a
cd $wt
for f in $(git status --short | awk '{print $2}' | grep contracts_verif.go); do
  if ! git -C /repo diff --quiet HEAD -- $f 2>/dev/null; then echo "WARNING /repo has uncommitted changes in $f"; fi
  base=$(git rev-parse HEAD); if [ "$(git -C /repo log --format=%H -1 -- $f)" != "$(git log --format=%H -1 -- $f)" ]; then echo "NOTE: $f changed in /repo since the sandbox was created (merge by hand)"; git diff -- $f > /tmp/fu_$a.diff; (cd /repo && git apply /tmp/fu_$a.diff && echo "  applied as patch") ; else mkdir -p /repo/$(dirname $f); cp $f /repo/$f; echo "copied $f"; fi
done
for id in "$@"; do
  for d in specs selftest baseline; do for f in $vf/$d/$id.json $vf/$d/$id.obligations; do [ -f $f ] && cp $f /verif/$d/; done; done
  grep "^finding: property=$id " $vf/known_findings.txt | while read -r l; do grep -qF "$(echo "$l" | cut -c1-140)" /verif/known_findings.txt || echo "$l" >> /verif/known_findings.txt; done
done
mkdir -p /verif/findings/$a; cp -r $vf/repro/* /verif/findings/$a/ 2>/dev/null; cp $vf/rac/*.go /verif/rac/ 2>/dev/null
true
