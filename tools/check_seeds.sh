#!/bin/bash
# For every seeded change under /verif/seeded/<prop>-<k>: apply to /repo, run the property's check, undo, record which
# obligations caught it in /verif/seeded/RESULTS.json. Do not run while other checks use /repo.
cd /verif
python3 - <<'P'
import json,glob,os,subprocess,re
res={}
if os.path.exists('/verif/seeded/RESULTS.json'): res=json.load(open('/verif/seeded/RESULTS.json'))
only=os.environ.get('SEEDS','').split()
for d in sorted(glob.glob('/verif/seeded/*/patch.diff')):
    name=os.path.basename(os.path.dirname(d))
    if only and name not in only: continue
    prop=name.split('-')[0]
    if subprocess.run(['git','-C','/repo','apply','--check',d]).returncode!=0:
        res[name]={'caught_by':'PATCH NO LONGER APPLIES (code repaired/changed since)'}; continue
    subprocess.run(['git','-C','/repo','apply',d],check=True)
    try:
        out=subprocess.run(['/verif/bin/govc','check','--prop',prop],capture_output=True,text=True,env=dict(os.environ,GOVC_WORKERS='8',GOVC_TIMEOUT='90')).stdout
    finally:
        subprocess.run(['git','-C','/repo','apply','-R',d],check=True)
    viol=[l for l in out.splitlines() if l.startswith('VIOLATION')]
    failed=[re.sub(r' \[.*','',l[len('FAILED obligation '):]) for l in out.splitlines() if l.startswith('FAILED obligation')]
    lost=[l for l in out.splitlines() if l.startswith('FAILED ') and 'baseline obligations' in l]
    replay=any('_test.go' in l and 'no-failing-input-found' not in l for l in viol)
    if viol:
        res[name]={'caught_by':('; '.join(failed[:3]) if failed else 'function no longer verifiable: '+(lost[0][:120] if lost else ''))+(' (replayed on real code)' if replay else ' (no-failing-input-found)'),'violations':len(viol)}
    else:
        res[name]={'caught_by':'MISSED','violations':0}
    print(name,res[name]['caught_by'][:150])
json.dump(res,open('/verif/seeded/RESULTS.json','w'),indent=1)
P
git -C /repo status --short | grep -v Static
