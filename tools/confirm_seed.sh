#!/bin/bash
# usage: confirm_seed.sh <prop> <k>   — confirms a seeded change produced in /tmp/mut/<prop>/seeded/<k> and records it under /verif/seeded/<prop>-<k>
p=$1; k=$2
src=/tmp/mut/$p/seeded/$k
wt=/tmp/mut/$p
export GOFLAGS=-mod=mod GOPROXY=off GOSUMDB=off GOTOOLCHAIN=local
cd $wt || exit 1
git checkout -q -- . 2>/dev/null
demo_pkg=$(python3 -c "import json;print(json.load(open('$src/meta.json'))['demo_pkg'])")
demo_run=$(python3 -c "
import json,re
r=json.load(open('$src/meta.json')).get('demo_run','.')
m=re.search(r'-run\s+(\S+)',r)
print(m.group(1) if m else r)")
demo_pkg=${demo_pkg#./}
mkdir -p $wt/.tmp
run_demo() { cp $src/demo_test.go $wt/$demo_pkg/zz_seeded_demo_test.go; (cd $wt && TMPDIR=$wt/.tmp go test -vet=off -count=1 -run "$demo_run" ./$demo_pkg/ 2>&1 | tail -3); rm -f $wt/$demo_pkg/zz_seeded_demo_test.go; }
echo "== demo WITHOUT change"; run_demo | tail -2
git apply $src/patch.diff || { echo "PATCH DOES NOT APPLY"; exit 1; }
pkgs=$(git diff --name-only | xargs -n1 dirname | sort -u | sed 's#^#./#;s#$#/#' | tr '\n' ' ')
echo "== build"; (go build ./... 2>&1 | tail -3)
echo "== existing tests WITH change: $pkgs"; (TMPDIR=$wt/.tmp go test -vet=off -count=1 $pkgs 2>&1 | tail -5)
echo "== demo WITH change"; run_demo | tail -3
git checkout -q -- .
rm -rf $wt/.tmp
mkdir -p /verif/seeded/$p-$k && cp $src/patch.diff $src/demo_test.go $src/meta.json /verif/seeded/$p-$k/
echo "== govc check on a scratch worktree of /repo HEAD with the change applied (final results: tools/check_seeds.sh on /repo itself)"
sc=/tmp/seedcheck/$p; sv=/tmp/seedvf/$p
rm -rf $sv; mkdir -p $sv /tmp/seedcheck
[ -d $sc ] || git -C /repo worktree add --detach $sc HEAD >/dev/null 2>&1
git -C $sc checkout -q --detach $(git -C /repo rev-parse HEAD) && git -C $sc checkout -q -- .
cp -r /verif/specs /verif/baseline /verif/known_findings.txt /verif/rac $sv/
(cd $sc && git apply $src/patch.diff) || { echo "PATCH DOES NOT APPLY ON HEAD"; exit 1; }
(cd $sv && GOVC_REPO=$sc GOVC_VERIF=$sv GOVC_WORKERS=6 /verif/bin/govc check --prop $p 2>&1 | grep "^VIOL\|^ERROR\|^FAILED\|^$p" | cut -c1-250)
git -C /repo worktree remove --force $sc; rm -rf $sv
