#!/bin/bash
# usage: integrate.sh <agent> <id> [<id>...] — copies an agent's deliverables into /repo (new contract files only) and /verif
a=$1; shift
wt=/tmp/wt/$a; vf=/tmp/vf/$a
cd $wt
for f in $(git status --short | grep '^??' | awk '{print $2}' | grep contracts_verif.go); do
  mkdir -p /repo/$(dirname $f); cp $f /repo/$f; echo "new contract file: $f"
done
for f in $(git status --short | grep '^ M' | awk '{print $2}'); do echo "MODIFIED (merge by hand): $f"; done
for id in "$@"; do
  for d in specs selftest baseline; do
    for f in $vf/$d/$id.json $vf/$d/$id.obligations; do [ -f $f ] && cp $f /verif/$d/ ; done
  done
  grep "property=$id " $vf/known_findings.txt | grep -v -F -f <(cut -c1-120 /verif/known_findings.txt) >> /tmp/kf_$a.txt
done
mkdir -p /verif/findings/$a && cp -r $vf/repro/* /verif/findings/$a/ 2>/dev/null
echo "candidate findings in /tmp/kf_$a.txt:"; wc -l /tmp/kf_$a.txt
