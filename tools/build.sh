#!/bin/bash
# builds govc atomically (agents may be running the binary)
cd /verif/govc && export GOFLAGS=-mod=mod GOPROXY=off GOSUMDB=off GOTOOLCHAIN=local && go build -o /verif/bin/govc.new ./cmd/govc && mv /verif/bin/govc.new /verif/bin/govc && echo built
