#!/bin/bash
# usage: scratch_seeds.sh <log> <seed>...   — for each /verif/seeded/<seed>/patch.diff: scratch worktree of /repo HEAD + scratch
# copy of the /verif inputs, apply, run the property's quick check, print the result in the "##### <seed>" log format
log=$1; shift
for s in "$@"; do
  p=${s%-*}
  echo "##### $s" >> $log
  sc=/tmp/seedcheck/s_$s; sv=/tmp/seedvf/s_$s
  rm -rf $sv; mkdir -p $sv /tmp/seedcheck
  git -C /repo worktree add --detach $sc HEAD >/dev/null 2>&1
  cp -r /verif/specs /verif/baseline /verif/known_findings.txt /verif/rac $sv/
  if (cd $sc && git apply /verif/seeded/$s/patch.diff 2>/dev/null); then
    (cd $sv && GOVC_REPO=$sc GOVC_VERIF=$sv GOVC_WORKERS=6 /verif/bin/govc check --prop $p 2>&1 | grep "^VIOL\|^ERROR\|^FAILED\|^$p" | sed "s#$sv#/verif#g; s#$sc#/repo#g" | cut -c1-260 >> $log)
  else
    echo "PATCH DOES NOT APPLY ON HEAD" >> $log
  fi
  git -C /repo worktree remove --force $sc; rm -rf $sv
done
echo ALLDONE >> $log
