#!/bin/bash
# Quiet-machine pass: rewrites the baseline of every claimed property from /repo as it is (obligations slower than
# GOVC_BASELINE_MAX seconds are not claimed). usage: rebaseline.sh [ids...]
cd /verif
ids="$@"
[ -z "$ids" ] && ids=$(python3 -c "
import json,glob
for f in sorted(glob.glob('/verif/specs/C*.json')):
    s=json.load(open(f))
    if s.get('claimed',True) is not False: print(s['id'])")
mkdir -p out/logs
for i in $ids; do
  ( GOVC_WORKERS=8 ./bin/govc baseline --prop $i > out/logs/baseline_$i.log 2>&1; echo "$i exit=$? $(grep -E '^baseline' out/logs/baseline_$i.log | tr '\n' ' ') $(tail -1 out/logs/baseline_$i.log)" ) &
  while [ $(jobs -r | wc -l) -ge 2 ]; do sleep 0.5; done
done
wait
