#!/usr/bin/env python3
# Regenerates the status tables of DESIGN.md section 0 (between the STATUS-TABLES markers) from specs, evidence,
# known_findings.txt and seeded/*/meta.json (+ seeded/RESULTS.json written by tools/check_seeds.sh).
import json, glob, os, re
V = '/verif'
props = [json.loads(l) for l in open(V + '/properties.jsonl')]
man = json.load(open(V + '/MANIFEST.json'))
claimed = {c['property_id']: c for c in man['checks']}
na = {n['property_id']: n['reason'] for n in man.get('not_applicable', [])}
out = []
out.append('### 0.3 Per-property status\n')
out.append('| id | title | status | level | functions | obligations discharged | known findings | bounded stand-ins |')
out.append('|---|---|---|---|---|---|---|---|')
for p in props:
    i = p['id']
    if i in claimed:
        ev = {}
        try:
            ev = json.load(open(V + '/evidence/%s.json' % i))
        except Exception:
            pass
        cov = ev.get('coverage', {})
        b = '; '.join('%s (%s evaluations)' % (x['name'], x['evaluations']) for x in cov.get('bounded', []) or [])
        out.append('| %s | %s | claimed | %s | %d | %s/%s | %d | %s |' % (i, p['title'], claimed[i]['level_claimed']['category'],
                   len(cov.get('functions_under_contract', [])), cov.get('discharged', '?'), cov.get('obligations', '?'),
                   len(cov.get('known_findings_hit', []) or []), b or '-'))
    else:
        out.append('| %s | %s | not claimed | - | - | - | - | %s |' % (i, p['title'], na.get(i, '')[:160].replace('|', '/')))
out.append('')
out.append('### 0.4 Defects found by failing obligations\n')
out.append('| property | state | commit | what failed |')
out.append('|---|---|---|---|')
for l in open(V + '/known_findings.txt'):
    l = l.strip()
    if l.startswith('fixed:'):
        m = re.match(r'fixed:\s+property=(\S+)\s+(\S+)\s+(.*)', l)
        if m:
            out.append('| %s | repaired (`fix:` commit) | %s | %s |' % (m.group(1), m.group(2), m.group(3).replace('|', '/')[:400]))
    elif l.startswith('finding:'):
        m = re.match(r'finding:\s+property=(\S+)\s+obligation=(\S+)\s+::\s+(.*)', l)
        if m:
            out.append('| %s | known finding | - | `%s`: %s |' % (m.group(1), m.group(2), m.group(3).replace('|', '/')[:400]))
out.append('')
out.append('### 0.5 Seeded changes (independent sub-agents, property text only) and which check catches them\n')
res = {}
if os.path.exists(V + '/seeded/RESULTS.json'):
    res = json.load(open(V + '/seeded/RESULTS.json'))
notes = json.load(open(V + '/seeded/NOTES.json')) if os.path.exists(V + '/seeded/NOTES.json') else {}
out.append('| seed | property | change | needs | caught by |')
out.append('|---|---|---|---|---|')
for d in sorted(glob.glob(V + '/seeded/*/meta.json')):
    name = os.path.basename(os.path.dirname(d))
    m = json.load(open(d))
    r = dict(res.get(name, {}))
    if name in notes and 'MISSED' in r.get('caught_by', ''):
        r['caught_by'] = 'MISSED - ' + notes[name]
    elif name in notes:
        r['caught_by'] = r.get('caught_by', '') + ' [note: ' + notes[name] + ']'
    out.append('| %s | %s | %s | %s | %s |' % (name, m.get('property', ''), str(m.get('summary', ''))[:260].replace('|', '/'),
               str(m.get('needs', ''))[:200].replace('|', '/'), r.get('caught_by', 'not run yet').replace('|', '/')))
out.append('')
s = open(V + '/DESIGN.md').read()
a, b = '<!-- STATUS-TABLES-BEGIN -->', '<!-- STATUS-TABLES-END -->'
i, j = s.index(a) + len(a), s.index(b)
s = s[:i] + '\n' + '\n'.join(out) + '\n' + s[j:]
open(V + '/DESIGN.md', 'w').write(s)
print('status tables written:', len(out), 'lines')
