#!/bin/bash
# Runs every claimed check (quick tier by default) on /repo as it is, in parallel, and validates the evidence files.
tier=${1:-quick}
cd /verif
ids=$(python3 -c "import json;print(' '.join(c['property_id'] for c in json.load(open('MANIFEST.json'))['checks']))")
mkdir -p out/logs
for i in $ids; do
  ( ./bin/govc check --prop $i --tier $tier > out/logs/$i.log 2>&1; echo "$i exit=$? $(tail -1 out/logs/$i.log)" ) &
  while [ $(jobs -r | wc -l) -ge 6 ]; do sleep 0.2; done
done
wait
python3-vt - <<'P'
import json,jsonschema,glob
sch=json.load(open('/root/.vp/EVIDENCE.schema.json'))
m=json.load(open('/verif/MANIFEST.json'))
jsonschema.validate(m,json.load(open('/root/.vp/MANIFEST.schema.json')))
for c in m['checks']:
    e=json.load(open(c['evidence_file']))
    jsonschema.validate(e,sch)
    cov=e['coverage']
    if e['level']=='proof' and cov['obligations']!=cov['discharged']:
        print('EVIDENCE MISMATCH',c['property_id'],cov['obligations'],cov['discharged'])
print('evidence valid for',len(m['checks']),'checks')
P
