#!/bin/bash
# usage: mkagent.sh <name>  — creates /tmp/wt/<name> (worktree of /repo HEAD) and /tmp/vf/<name> (copy of verif inputs)
n=$1
mkdir -p /tmp/wt /tmp/vf
git -C /repo worktree add --detach /tmp/wt/$n HEAD >/dev/null 2>&1
mkdir -p /tmp/vf/$n
cp -r /verif/specs /verif/selftest /verif/baseline /verif/known_findings.txt /tmp/vf/$n/
echo "WT=/tmp/wt/$n VF=/tmp/vf/$n"
