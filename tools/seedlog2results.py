#!/usr/bin/env python3
# Parses confirm_seed logs ("##### <prop>-<k>" sections with govc output) into /verif/seeded/RESULTS.json entries.
import sys,re,json,os
res={}
p='/verif/seeded/RESULTS.json'
if os.path.exists(p): res=json.load(open(p))
for f in sys.argv[1:]:
    cur=None;buf=[]
    def flush():
        if not cur: return
        viol=[l for l in buf if l.startswith('VIOLATION')]
        failed=[re.sub(r' \[.*','',l[len('FAILED obligation '):]) for l in buf if l.startswith('FAILED obligation')]
        lost=[l for l in buf if l.startswith('FAILED ') and 'baseline obligations' in l]
        summary=[l for l in buf if re.match(r'^C\d+: \d+ obligations',l)]
        if not summary: return
        replay=any('_test.go' in l and 'no-failing-input-found' not in l for l in viol)
        names=failed[:3] or [re.sub(r'.*replay_','',v).split(' ')[0] for v in viol[:3]]
        if viol:
            res[cur]={'caught_by':('; '.join(names) if not lost else 'function no longer verifiable: '+lost[0][:140])+(' (replayed on real code)' if replay else ' (no-failing-input-found)'),'violations':len(viol)}
        else:
            res[cur]={'caught_by':'MISSED','violations':0}
    for l in open(f):
        l=l.rstrip('\n')
        m=re.match(r'^##### (C\d+-\d+)',l)
        if m:
            flush(); cur=m.group(1); buf=[]
        else: buf.append(l)
    flush()
json.dump(res,open(p,'w'),indent=1,sort_keys=True)
print(len(res),'entries;','missed:',[k for k,v in res.items() if v['caught_by']=='MISSED'])
