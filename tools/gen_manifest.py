#!/usr/bin/env python3
# Regenerates /verif/MANIFEST.json from /verif/specs/*.json (+ specs/not_applicable.json).
import json, glob, os, subprocess
V='/verif'
props=[json.loads(l) for l in open(V+'/properties.jsonl')]
specs={}
for f in sorted(glob.glob(V+'/specs/C*.json')):
    s=json.load(open(f)); specs[s['id']]=s
na=json.load(open(V+'/specs/not_applicable.json')) if os.path.exists(V+'/specs/not_applicable.json') else {}
hooks=subprocess.run(['git','-C','/repo','log','--format=%H %s'],capture_output=True,text=True).stdout.splitlines()
hook_commits=[l.split()[0] for l in hooks if l.split(' ',1)[1].startswith('verif:')]
checks=[];nalist=[]
for p in props:
    i=p['id']
    s=specs.get(i)
    if s and s.get('claimed',True):
        lvl=s.get('level','proof')
        checks.append({
          "property_id":i,
          "quick_cmd":f"/verif/bin/govc check --prop {i} --tier quick",
          "thorough_cmd":f"/verif/bin/govc check --prop {i} --tier thorough",
          "evidence_file":f"/verif/evidence/{i}.json",
          "replay_cmd_template":"/verif/bin/govc replay {path}",
          "engine":"govc",
          "level_claimed":{"category":lvl,"text":s.get('level_text',''),"design_ref":"DESIGN.md section 5, "+i},
          "level_note":s.get('level_note',''),
          "technique":s.get('technique',"contract-based deductive verification: weakest-precondition VCs generated from go/ssa of the real functions, contracts in /repo/**/contracts_verif.go, discharged by z3/z3-new/cvc5")})
    else:
        nalist.append({"property_id":i,"reason":na.get(i,"check not built yet; DESIGN.md section 5 gives the planned contracts")})
m={"version":1,
"setup_cmd":"cd /verif/govc && GOFLAGS=-mod=mod GOPROXY=off GOSUMDB=off GOTOOLCHAIN=local go build -o /verif/bin/govc ./cmd/govc",
"hooks":{"guard":"verif","enable":"go/packages load with -tags=verif; the only hook files are comment-only /repo/**/contracts_verif.go (//go:build verif) holding the contracts","baseline_off_cmd":"for m in $(cat /w/out/gomods.txt); do MF=$(cd /repo/$m && . /w/out/goenv.sh && gomodflag); (cd /repo/$m && go test $MF -json -vet=off -count=1 -timeout 25m ./...); done","source_commits":hook_commits,"add_only":True},
"engines":[{"name":"govc","path":"/verif/govc","serves_properties":[c['property_id'] for c in checks],"kind_free_text":"contract-based deductive verifier for Go built here: VC generation over go/ssa of the real functions (machine integers modelled exactly, heap as per-field arrays, loops cut at invariants, calls by contract), obligations discharged by a portfolio of z3 4.8.12 / z3 5.1.0 / cvc5 1.0.3; counterexample models replayed on the real code through go test -overlay"}],
"checks":checks,
"notes":"See DESIGN.md. Known findings and repaired defects: /verif/known_findings.txt. Self-test corpus: /verif/selftest (govc selftest --prop <id>).",
"not_applicable":nalist}
json.dump(m,open(V+'/MANIFEST.json','w'),indent=1)
print(len(checks),'checks',len(nalist),'not claimed')
