package sharding

// Bounded stand-in for the top-level claim of C14 (shuffleNodes as a whole is out of the deductive check's reach: the map-range loops
// of removeLeavingNodes / moveMaxNumNodesToMap are modelled as arbitrary keys without exhaustion, shuffleList/sortKeys are trusted).
// With the waiting-list fix active, if every shard and the metachain start with eligible+waiting >= minimum, then after shuffleNodes every
// one of them has at least its minimum number of eligible validators - whatever the leaving sets are.
// Bound: 1..2 shards + metachain, minimum sizes 1..3 (shard) / 1..2 (meta), eligible 0..4 and waiting 0..3 per shard (pseudo-random
// choice per case), leaving sets = pseudo-random subsets of all validators plus an unknown key and a duplicate, 0..2 new nodes,
// maxNodesToSwapPerShard 0..3, both distributors, both settings of the balance flag.
// Prints "RAC-EVALS n"; any failure prints "RAC-FAIL ...".

import (
	"fmt"
	"math/rand"
	"os"
	"testing"

	"github.com/ElrondNetwork/elrond-go/core"
)

func racVal(id int) Validator {
	v, _ := NewValidator([]byte(fmt.Sprintf("pk-%04d", id)), 1, uint32(id))
	return v
}

func TestRAC_C14_minimum_size(t *testing.T) {
	cases := 20000
	if os.Getenv("VERIF_TIER") == "thorough" {
		cases = 200000
	}
	rnd := rand.New(rand.NewSource(14))
	evals := 0
	for c := 0; c < cases; c++ {
		nbShards := uint32(1 + rnd.Intn(2))
		minShard := uint32(1 + rnd.Intn(3))
		minMeta := uint32(1 + rnd.Intn(2))
		shardIds := []uint32{core.MetachainShardId}
		for s := uint32(0); s < nbShards; s++ {
			shardIds = append(shardIds, s)
		}
		next := 0
		eligible := map[uint32][]Validator{}
		waiting := map[uint32][]Validator{}
		var all []Validator
		for _, s := range shardIds {
			min := int(minShard)
			if s == core.MetachainShardId {
				min = int(minMeta)
			}
			e, w := rnd.Intn(5), rnd.Intn(4)
			for e+w < min { // the property's precondition
				if rnd.Intn(2) == 0 && e < 4 {
					e++
				} else {
					w++
				}
			}
			eligible[s] = make([]Validator, 0)
			for i := 0; i < e; i++ {
				eligible[s] = append(eligible[s], racVal(next))
				next++
			}
			if w > 0 || rnd.Intn(2) == 0 { // sometimes the shard has no waiting entry at all
				waiting[s] = make([]Validator, 0)
			}
			for i := 0; i < w; i++ {
				waiting[s] = append(waiting[s], racVal(next))
				next++
			}
			all = append(all, eligible[s]...)
			all = append(all, waiting[s]...)
		}
		pick := func() []Validator {
			var l []Validator
			for _, v := range all {
				if rnd.Intn(3) == 0 {
					l = append(l, v)
				}
			}
			if rnd.Intn(4) == 0 {
				l = append(l, racVal(9000+rnd.Intn(5))) // unknown key
			}
			if len(l) > 0 && rnd.Intn(4) == 0 {
				l = append(l, l[rnd.Intn(len(l))]) // duplicate request
			}
			return l
		}
		var newNodes []Validator
		for i := rnd.Intn(3); i > 0; i-- {
			newNodes = append(newNodes, racVal(next))
			next++
		}
		arg := shuffleNodesArg{
			eligible: eligible, waiting: waiting,
			unstakeLeaving: pick(), additionalLeaving: pick(), newNodes: newNodes,
			randomness:             []byte(fmt.Sprintf("rand-%d", c)),
			nodesMeta:              minMeta,
			nodesPerShard:          minShard,
			nbShards:               nbShards,
			maxNodesToSwapPerShard: uint32(rnd.Intn(4)),
		}
		if rnd.Intn(2) == 0 {
			arg.distributor = &CrossShardValidatorDistributor{}
		} else {
			arg.distributor = &IntraShardValidatorDistributor{}
		}
		arg.flagWaitingListFix.Set()
		arg.flagBalanceWaitingLists.Toggle(rnd.Intn(2) == 0)
		before := map[uint32][2]int{}
		for _, s := range shardIds {
			before[s] = [2]int{len(eligible[s]), len(waiting[s])}
		}
		res, err := shuffleNodes(arg)
		evals++
		if err != nil {
			fmt.Printf("RAC-FAIL C14 case %d: error %v although every shard starts at its minimum (%v)\n", c, err, before)
			t.Fail()
			return
		}
		for _, s := range shardIds {
			min := int(minShard)
			if s == core.MetachainShardId {
				min = int(minMeta)
			}
			if len(res.Eligible[s]) < min {
				fmt.Printf("RAC-FAIL C14 case %d: shard %d has %d eligible < minimum %d (before: eligible,waiting=%v, shards=%d, swap=%d, unstake=%d additional=%d)\n",
					c, s, len(res.Eligible[s]), min, before[s], nbShards, arg.maxNodesToSwapPerShard, len(arg.unstakeLeaving), len(arg.additionalLeaving))
				t.Fail()
				return
			}
		}
	}
	fmt.Printf("RAC-EVALS %d\n", evals)
}
