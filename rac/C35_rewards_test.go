package metachain

// Bounded runtime-assertion stand-in for C35 "end-of-epoch rewards distribute exactly the computed amount"
// ((*rewardsCreatorV2).CreateRewardsMiniBlocks, rewardsV2.go / baseRewards.go).
//
// Bound (pseudo-random sample, fixed seed 35, 24000 configurations; RAC_THOROUGH=1 -> 240000):
//   shards 1..2 + metachain; 1..3 eligible validators per shard (metachain shard included), sometimes one extra waiting-list
//   validator that must be ignored; validators online/offline (offline: LeaderSuccess==0 && ValidatorSuccess==0), offline
//   validators either members of the consensus groups or never selected; consensus group size 1..#eligible of the shard,
//   blocks per shard in {0,1,7}, every block selects a consensus-size subset, so that
//   sum(NumSelectedInSuccessBlocks of the shard) == consensusSize(shard)*blocks(shard);
//   reward addresses drawn from a pool of 10 (4 shard addresses, 2 metachain delegation SCs, 4 metachain non-delegation:
//   missing account / empty value / retrieve error / peer account), hence shared within and across shards;
//   delegation flag on/off (metaBlock epoch in {0,5}, enable epoch in {0,5,10}); top-up per node in {0, 1000, 2*10^24};
//   top-up factor in {0.25, 1.0}, gradient point 3*10^24; AccumulatedFees per validator in {0, 17, 10^15};
//   LeaderFees = sum of the eligible validators' fees + {0,0,1,999}; RewardsForProtocolSustainability in {0, 50, 10^18+3};
//   RewardsToBeDistributedForBlocks in {0, 13, 1000003, 10^21+7}.
// Prints "RAC-EVALS n"; any failure prints "RAC-FAIL ...". Known and only noted: "RAC-NOTE zero-value-protocol-tx",
// "RAC-NOTE inconsistent-input-mismatch".

import (
	"bytes"
	"fmt"
	"math/big"
	"math/rand"
	"os"
	"sort"
	"strings"
	"testing"

	logger "github.com/ElrondNetwork/elrond-go-logger"
	"github.com/ElrondNetwork/elrond-go/core"
	"github.com/ElrondNetwork/elrond-go/data"
	"github.com/ElrondNetwork/elrond-go/data/block"
	"github.com/ElrondNetwork/elrond-go/data/state"
	"github.com/ElrondNetwork/elrond-go/epochStart/mock"
	"github.com/ElrondNetwork/elrond-go/testscommon"
	"github.com/ElrondNetwork/elrond-go/testscommon/economicsmocks"
	vmcommon "github.com/ElrondNetwork/elrond-vm-common"
)

type racC35Val struct {
	shard    uint32
	pk       string
	addr     string
	list     string
	leaderS  uint32
	valS     uint32
	numSel   uint32
	fees     *big.Int
	topUp    *big.Int
	eligible bool
}

func (v *racC35Val) online() bool { return !(v.leaderS == 0 && v.valS == 0) }

type racC35Cfg struct {
	id          int
	nShards     uint32
	shardIDs    []uint32
	vals        map[uint32][]*racC35Val
	cons        map[uint32]int
	blocks      map[uint32]uint64
	rewards     *big.Int
	prot        *big.Int
	leaderFees  *big.Int
	epoch       uint32
	enableEpoch uint32
	factor      float64
	protShard   uint32
}

func (c *racC35Cfg) flagOn() bool { return c.epoch >= c.enableEpoch }

func racC35ShardName(s uint32) string {
	if s == core.MetachainShardId {
		return "meta"
	}
	return fmt.Sprintf("%d", s)
}

func (c *racC35Cfg) String() string {
	var sb strings.Builder
	fmt.Fprintf(&sb, "{#%d shards=%d epoch=%d enableEpoch=%d(flag=%v) R=%s prot=%s leaderFees=%s factor=%v protShard=%d",
		c.id, c.nShards, c.epoch, c.enableEpoch, c.flagOn(), c.rewards, c.prot, c.leaderFees, c.factor, c.protShard)
	for _, s := range c.shardIDs {
		fmt.Fprintf(&sb, " | shard %s: cons=%d blocks=%d", racC35ShardName(s), c.cons[s], c.blocks[s])
		for _, v := range c.vals[s] {
			fmt.Fprintf(&sb, " [%s %s L%d/V%d sel=%d fees=%s topUp=%s]", v.addr, v.list, v.leaderS, v.valS, v.numSel, v.fees, v.topUp)
		}
	}
	sb.WriteString("}")
	return sb.String()
}

var racC35ProtAddr = []byte{0x11} // ProtocolSustainabilityAddress "11" decoded by the pubkey converter mock

var racC35AddrPool = []string{"s0a", "s0b", "s1a", "s1b", "mDa", "mDb", "mNa", "mNe", "mNx", "mNp"}

func racC35IsDelegation(addr []byte) bool { return strings.HasPrefix(string(addr), "mD") }

func racC35ComputeID(c *racC35Cfg, addr []byte) uint32 {
	if bytes.Equal(addr, racC35ProtAddr) {
		return c.protShard
	}
	if len(addr) > 1 && addr[0] == 's' {
		return uint32(addr[1]-'0') % c.nShards
	}
	return core.MetachainShardId
}

func racC35Big(s string) *big.Int {
	r, ok := big.NewInt(0).SetString(s, 10)
	if !ok {
		panic("bad number " + s)
	}
	return r
}

var (
	racC35RewardsChoices = []*big.Int{big.NewInt(0), big.NewInt(13), big.NewInt(1000003), racC35Big("1000000000000000000007")}
	racC35ProtChoices    = []*big.Int{big.NewInt(0), big.NewInt(50), racC35Big("1000000000000000003")}
	racC35TopUpChoices   = []*big.Int{big.NewInt(0), big.NewInt(1000), racC35Big("2000000000000000000000000")}
	racC35FeeChoices     = []*big.Int{big.NewInt(0), big.NewInt(17), racC35Big("1000000000000000")}
	racC35ExtraFees      = []*big.Int{big.NewInt(0), big.NewInt(0), big.NewInt(1), big.NewInt(999)}
	racC35NodePrice      = racC35Big("2500000000000000000000")
	racC35GradientPoint  = racC35Big("3000000000000000000000000")
)

// racC35Gen builds one CONSISTENT configuration
func racC35Gen(rng *rand.Rand, id int) *racC35Cfg {
	c := &racC35Cfg{
		id:      id,
		nShards: uint32(1 + id%2),
		rewards: racC35RewardsChoices[(id/2)%4],
		prot:    racC35ProtChoices[(id/8)%3],
		vals:    make(map[uint32][]*racC35Val),
		cons:    make(map[uint32]int),
		blocks:  make(map[uint32]uint64),
	}
	switch (id / 24) % 4 {
	case 0:
		c.epoch, c.enableEpoch = 0, 0
	case 1:
		c.epoch, c.enableEpoch = 5, 5
	case 2:
		c.epoch, c.enableEpoch = 0, 5
	default:
		c.epoch, c.enableEpoch = 5, 10
	}
	c.factor = []float64{0.25, 1.0}[rng.Intn(2)]
	c.protShard = uint32(rng.Intn(int(c.nShards)))
	for s := uint32(0); s < c.nShards; s++ {
		c.shardIDs = append(c.shardIDs, s)
	}
	c.shardIDs = append(c.shardIDs, core.MetachainShardId)

	offlineSelected := rng.Intn(2) == 0 // offline validators still members of the consensus groups, or never selected
	metaAddrBias := rng.Intn(3)         // 0: few metachain addresses, 2: many
	sumFees := big.NewInt(0)
	for _, s := range c.shardIDs {
		n := 1 + rng.Intn(3)
		var list []*racC35Val
		for i := 0; i < n; i++ {
			v := &racC35Val{
				shard:    s,
				pk:       fmt.Sprintf("bls_%s_%d", racC35ShardName(s), i),
				list:     string(core.EligibleList),
				eligible: true,
				fees:     racC35FeeChoices[rng.Intn(3)],
				topUp:    racC35TopUpChoices[rng.Intn(3)],
			}
			if rng.Intn(3) < metaAddrBias {
				v.addr = racC35AddrPool[4+rng.Intn(6)]
			} else {
				v.addr = racC35AddrPool[rng.Intn(4)]
			}
			switch rng.Intn(4) {
			case 0: // offline
			case 1:
				v.leaderS = 1
			case 2:
				v.valS = 1
			default:
				v.leaderS, v.valS = 3, 4
			}
			sumFees.Add(sumFees, v.fees)
			list = append(list, v)
		}

		var cands []*racC35Val
		for _, v := range list {
			if v.online() || offlineSelected {
				cands = append(cands, v)
			}
		}
		b := []uint64{0, 1, 7}[rng.Intn(3)]
		cs := 1
		if len(cands) == 0 {
			b = 0 // nobody can have been selected: no successful block in this shard
		} else {
			cs = 1 + rng.Intn(len(cands))
		}
		for k := uint64(0); k < b; k++ {
			perm := rng.Perm(len(cands))
			for _, idx := range perm[:cs] {
				cands[idx].numSel++
			}
		}
		c.cons[s] = cs
		c.blocks[s] = b

		if rng.Intn(4) == 0 { // a non eligible validator, to be ignored altogether
			list = append(list, &racC35Val{
				shard:   s,
				pk:      fmt.Sprintf("bls_%s_w", racC35ShardName(s)),
				list:    string(core.WaitingList),
				addr:    racC35AddrPool[rng.Intn(len(racC35AddrPool))],
				leaderS: 2, valS: 2, numSel: 5,
				fees:  big.NewInt(99),
				topUp: racC35TopUpChoices[2],
			})
		}
		c.vals[s] = list
	}
	c.leaderFees = big.NewInt(0).Add(sumFees, racC35ExtraFees[rng.Intn(4)])
	return c
}

// racC35Consistent re-checks the consistency rules on a configuration (guards the generator)
func racC35Consistent(c *racC35Cfg) string {
	sumFees := big.NewInt(0)
	for _, s := range c.shardIDs {
		sumSel := uint64(0)
		nEl := 0
		for _, v := range c.vals[s] {
			if !v.eligible {
				continue
			}
			nEl++
			sumSel += uint64(v.numSel)
			sumFees.Add(sumFees, v.fees)
			if uint64(v.numSel) > c.blocks[s] {
				return "numSel > blocks"
			}
		}
		if nEl < 1 || c.cons[s] < 1 || c.cons[s] > nEl {
			return "bad consensus size"
		}
		if sumSel != uint64(c.cons[s])*c.blocks[s] {
			return "sum rule broken"
		}
	}
	if c.leaderFees.Cmp(sumFees) < 0 {
		return "leader fees below the validators' fees"
	}
	return ""
}

type racC35Shared struct {
	base BaseRewardsCreatorArgs
}

func racC35Accounts() state.AccountsAdapter {
	userAcc := func(val []byte, err error) vmcommon.AccountHandler {
		return &mock.UserAccountStub{
			DataTrieTrackerCalled: func() state.DataTrieTracker {
				return &mock.DataTrieTrackerStub{
					RetrieveValueCalled: func(key []byte) ([]byte, error) {
						if bytes.Equal(key, []byte(core.DelegationSystemSCKey)) {
							return val, err
						}
						return nil, fmt.Errorf("not found")
					},
				}
			},
		}
	}
	return &testscommon.AccountsStub{
		GetExistingAccountCalled: func(address []byte) (vmcommon.AccountHandler, error) {
			a := string(address)
			switch {
			case strings.HasPrefix(a, "mD"):
				return userAcc([]byte("delegation"), nil), nil
			case a == "mNe":
				return userAcc([]byte{}, nil), nil
			case a == "mNx":
				return userAcc(nil, fmt.Errorf("retrieve error")), nil
			case a == "mNp":
				return state.NewPeerAccount(address)
			}
			return nil, fmt.Errorf("account does not exist")
		},
	}
}

func racC35Build(sh *racC35Shared, c *racC35Cfg) (*rewardsCreatorV2, *block.MetaBlock, map[uint32][]*state.ValidatorInfo, error) {
	base := sh.base
	sc := mock.NewMultiShardsCoordinatorMock(c.nShards)
	sc.CurrentShard = core.MetachainShardId
	sc.ComputeIdCalled = func(address []byte) uint32 { return racC35ComputeID(c, address) }
	base.ShardCoordinator = sc
	base.NodesConfigProvider = &mock.NodesCoordinatorStub{
		ConsensusGroupSizeCalled: func(shardID uint32) int { return c.cons[shardID] },
	}
	base.DelegationSystemSCEnableEpoch = c.enableEpoch

	topUps := make(map[string]*big.Int)
	totalTopUp := big.NewInt(0)
	totalStake := big.NewInt(0)
	vInfo := make(map[uint32][]*state.ValidatorInfo)
	for _, s := range c.shardIDs {
		for _, v := range c.vals[s] {
			vInfo[s] = append(vInfo[s], &state.ValidatorInfo{
				PublicKey:                  []byte(v.pk),
				ShardId:                    s,
				List:                       v.list,
				RewardAddress:              []byte(v.addr),
				LeaderSuccess:              v.leaderS,
				ValidatorSuccess:           v.valS,
				NumSelectedInSuccessBlocks: v.numSel,
				AccumulatedFees:            big.NewInt(0).Set(v.fees),
			})
			if v.eligible {
				topUps[v.pk] = v.topUp
				totalTopUp.Add(totalTopUp, v.topUp)
				totalStake.Add(totalStake, v.topUp)
				totalStake.Add(totalStake, racC35NodePrice)
			}
		}
	}

	eco := NewEpochEconomicsStatistics()
	eco.SetNumberOfBlocksPerShard(c.blocks) // also sets NumberOfBlocks = sum
	eco.SetLeadersFees(big.NewInt(0).Set(c.leaderFees))
	eco.SetRewardsToBeDistributedForBlocks(c.rewards)
	total := big.NewInt(0).Add(c.rewards, c.leaderFees)
	total.Add(total, c.prot)
	eco.SetRewardsToBeDistributed(total)

	args := RewardsCreatorArgsV2{
		BaseRewardsCreatorArgs: base,
		StakingDataProvider: &mock.StakingDataProviderStub{
			GetTotalStakeEligibleNodesCalled:      func() *big.Int { return big.NewInt(0).Set(totalStake) },
			GetTotalTopUpStakeEligibleNodesCalled: func() *big.Int { return big.NewInt(0).Set(totalTopUp) },
			GetNodeStakedTopUpCalled: func(blsKey []byte) (*big.Int, error) {
				tu, ok := topUps[string(blsKey)]
				if !ok {
					return nil, fmt.Errorf("not found")
				}
				return big.NewInt(0).Set(tu), nil
			},
		},
		EconomicsDataProvider: eco,
		RewardsHandler: &economicsmocks.EconomicsHandlerStub{
			RewardsTopUpGradientPointCalled: func() *big.Int { return big.NewInt(0).Set(racC35GradientPoint) },
			RewardsTopUpFactorCalled:        func() float64 { return c.factor },
		},
	}
	rc, err := NewRewardsCreatorV2(args)
	if err != nil {
		return nil, nil, nil, err
	}

	metaBlock := &block.MetaBlock{
		Epoch:          c.epoch,
		Round:          77,
		EpochStart:     getDefaultEpochStart(),
		DevFeesInEpoch: big.NewInt(0),
	}
	metaBlock.EpochStart.Economics.RewardsForProtocolSustainability = big.NewInt(0).Set(c.prot)
	metaBlock.EpochStart.Economics.TotalToDistribute = big.NewInt(0).Set(total)
	return rc, metaBlock, vInfo, nil
}

type racC35Result struct {
	fails      []string
	zeroProt   bool
	created    *big.Int
	expected   *big.Int
	totalMatch bool
}

func racC35RunAndCheck(sh *racC35Shared, c *racC35Cfg) *racC35Result {
	res := &racC35Result{created: big.NewInt(0)}
	fail := func(format string, a ...interface{}) {
		res.fails = append(res.fails, fmt.Sprintf(format, a...))
	}
	res.expected = big.NewInt(0).Add(c.rewards, c.leaderFees)
	res.expected.Add(res.expected, c.prot)

	rc, metaBlock, vInfo, err := racC35Build(sh, c)
	if err != nil {
		fail("constructor-error %v", err)
		return res
	}
	miniBlocks, err := rc.CreateRewardsMiniBlocks(metaBlock, vInfo, &metaBlock.EpochStart.Economics)
	if err != nil {
		fail("create-error %v", err)
		return res
	}

	onlineAddr := make(map[string]bool)
	for _, s := range c.shardIDs {
		for _, v := range c.vals[s] {
			if v.eligible && v.online() {
				onlineAddr[v.addr] = true
			}
		}
	}

	nHashes, nFound, nProt := 0, 0, 0
	var protTx data.TransactionHandler
	seenRcv := make(map[string]bool)
	seenHash := make(map[string]bool)
	seenMbRcv := make(map[uint32]bool)
	for _, mb := range miniBlocks {
		if len(mb.TxHashes) == 0 {
			fail("empty-miniblock rcv=%d", mb.ReceiverShardID)
		}
		if mb.Type != block.RewardsBlock || mb.SenderShardID != core.MetachainShardId {
			fail("miniblock-header type=%v sender=%d", mb.Type, mb.SenderShardID)
		}
		if seenMbRcv[mb.ReceiverShardID] {
			fail("two-miniblocks-for-shard %d", mb.ReceiverShardID)
		}
		seenMbRcv[mb.ReceiverShardID] = true
		for _, h := range mb.TxHashes {
			nHashes++
			if seenHash[string(h)] {
				fail("duplicate-tx-hash")
			}
			seenHash[string(h)] = true
			tx, errGet := rc.currTxs.GetTx(h)
			if errGet != nil || tx == nil {
				fail("(d) tx-not-found %v", errGet)
				continue
			}
			nFound++
			val := tx.GetValue()
			rcv := tx.GetRcvAddr()
			res.created.Add(res.created, val)
			rcvShard := racC35ComputeID(c, rcv)
			if rcvShard != mb.ReceiverShardID {
				fail("tx-in-wrong-miniblock rcv=%q shard=%d mb=%d", rcv, rcvShard, mb.ReceiverShardID)
			}
			if bytes.Equal(rcv, racC35ProtAddr) {
				nProt++
				protTx = tx
				if val.Sign() < 0 {
					fail("(b) negative-protocol-tx %s", val)
				}
				if val.Sign() == 0 {
					res.zeroProt = true
				}
				continue
			}
			if val.Sign() <= 0 {
				fail("(b) non-positive-value rcv=%q value=%s", rcv, val)
			}
			if rcvShard == core.MetachainShardId && !(c.flagOn() && racC35IsDelegation(rcv)) {
				fail("(c) metachain-destination rcv=%q flag=%v", rcv, c.flagOn())
			}
			if !onlineAddr[string(rcv)] {
				fail("(c) receiver-is-no-online-eligible-reward-address rcv=%q", rcv)
			}
			if seenRcv[string(rcv)] {
				fail("two-txs-for-address rcv=%q", rcv)
			}
			seenRcv[string(rcv)] = true
		}
	}
	if nHashes != nFound {
		fail("(d) hashes=%d found=%d", nHashes, nFound)
	}
	if nProt != 1 {
		fail("(c) protocol-tx-count %d", nProt)
	} else if rc.GetProtocolSustainabilityRewards().Cmp(protTx.GetValue()) != 0 {
		fail("(d) GetProtocolSustainabilityRewards=%s protocol-tx=%s", rc.GetProtocolSustainabilityRewards(), protTx.GetValue())
	}
	res.totalMatch = res.created.Cmp(res.expected) == 0
	return res
}

func racC35SampleCount(n int) int {
	if os.Getenv("RAC_THOROUGH") == "1" {
		return n * 10
	}
	return n
}

func racC35NewShared() *racC35Shared {
	base := getBaseRewardsArguments()
	base.UserAccountsDB = racC35Accounts()
	return &racC35Shared{base: base}
}

func TestRAC_C35_rewards(t *testing.T) {
	_ = logger.SetLogLevel("*:NONE")
	defer func() { _ = logger.SetLogLevel("*:INFO") }()

	sh := racC35NewShared()
	rng := rand.New(rand.NewSource(35))
	n := racC35SampleCount(24000)

	evals, fails, zeroProt := 0, 0, 0
	zeroExample := ""
	cover := make(map[string]int)
	for id := 0; id < n; id++ {
		c := racC35Gen(rng, id)
		if why := racC35Consistent(c); why != "" {
			fmt.Printf("RAC-FAIL C35 generator-inconsistent(%s) %s\n", why, c)
			t.Fail()
			continue
		}
		res := racC35RunAndCheck(sh, c)
		if !res.totalMatch && len(res.fails) == 0 {
			res.fails = append(res.fails, "")
		}
		if !res.totalMatch {
			res.fails[0] = fmt.Sprintf("(a) TOTAL created=%s expected=%s; %s", res.created, res.expected, res.fails[0])
		}
		if len(res.fails) > 0 {
			fails++
			if fails <= 10 {
				fmt.Printf("RAC-FAIL C35 %s %s\n", strings.Join(res.fails, "; "), c)
			}
			t.Fail()
		}
		if res.zeroProt {
			zeroProt++
			if zeroExample == "" {
				zeroExample = c.String()
			}
		}
		evals++

		// coverage bookkeeping
		for _, s := range c.shardIDs {
			for _, v := range c.vals[s] {
				if !v.eligible {
					cover["waiting-validator"]++
					continue
				}
				if !v.online() {
					cover["offline"]++
					if v.numSel > 0 {
						cover["offline-selected"]++
					}
				} else if racC35ComputeID(c, []byte(v.addr)) == core.MetachainShardId {
					if c.flagOn() && racC35IsDelegation([]byte(v.addr)) {
						cover["meta-delegation-paid"]++
					} else {
						cover["meta-redirected"]++
					}
				}
			}
		}
	}
	if fails > 10 {
		fmt.Printf("RAC-FAIL C35 ... %d failing configurations in total\n", fails)
	}
	keys := make([]string, 0, len(cover))
	for k := range cover {
		keys = append(keys, k)
	}
	sort.Strings(keys)
	covLine := ""
	for _, k := range keys {
		covLine += fmt.Sprintf(" %s=%d", k, cover[k])
	}
	fmt.Printf("RAC-NOTE coverage%s\n", covLine)
	fmt.Printf("RAC-NOTE zero-value-protocol-tx %d\n", zeroProt)
	if zeroExample != "" {
		fmt.Printf("RAC-NOTE zero-value-protocol-tx example %s\n", zeroExample)
	}
	fmt.Println(fmt.Sprintf("RAC-EVALS %d", evals))
}

// TestRAC_C35_inconsistent documents the behaviour for inputs that break the consistency rules: it is not a failure.
func TestRAC_C35_inconsistent(t *testing.T) {
	_ = logger.SetLogLevel("*:NONE")
	defer func() { _ = logger.SetLogLevel("*:INFO") }()

	sh := racC35NewShared()
	rng := rand.New(rand.NewSource(3535))
	n := racC35SampleCount(2000)

	type tally struct {
		n, mismatch, over, under, otherFails int
		example                              string
	}
	tallies := map[string]*tally{"numSelected-too-large": {}, "leaderFees-too-small": {}}
	record := func(kind string, c *racC35Cfg, res *racC35Result) {
		tl := tallies[kind]
		tl.n++
		if len(res.fails) > 0 {
			tl.otherFails++
		}
		if res.totalMatch {
			return
		}
		tl.mismatch++
		if res.created.Cmp(res.expected) > 0 {
			tl.over++
		} else {
			tl.under++
		}
		if tl.example == "" {
			tl.example = fmt.Sprintf("created=%s expected=%s %s", res.created, res.expected, c)
		}
	}

	for id := 0; id < n; id++ {
		// A: NumSelectedInSuccessBlocks beyond what consensusSize*blocks allows
		c := racC35Gen(rng, id)
		if c.rewards.Cmp(big.NewInt(1000003)) < 0 {
			c.rewards = racC35RewardsChoices[2+id%2]
		}
		anyBlocks := false
		for _, s := range c.shardIDs {
			if c.blocks[s] == 0 {
				continue
			}
			anyBlocks = true
			for _, v := range c.vals[s] {
				if v.eligible {
					v.numSel += uint32(c.blocks[s])*uint32(c.cons[s]) + 3
				}
			}
		}
		if anyBlocks {
			record("numSelected-too-large", c, racC35RunAndCheck(sh, c))
		}

		// B: LeaderFees below the fees accumulated by the online validators
		c = racC35Gen(rng, id)
		onlineFees := big.NewInt(0)
		for _, s := range c.shardIDs {
			for _, v := range c.vals[s] {
				if v.eligible && v.online() {
					onlineFees.Add(onlineFees, v.fees)
				}
			}
		}
		if onlineFees.Sign() > 0 {
			delta := big.NewInt(1)
			if rng.Intn(2) == 0 {
				delta = big.NewInt(0).Set(onlineFees)
			}
			c.leaderFees = big.NewInt(0).Sub(onlineFees, delta)
			record("leaderFees-too-small", c, racC35RunAndCheck(sh, c))
		}
	}

	totalN, totalMismatch := 0, 0
	for _, kind := range []string{"numSelected-too-large", "leaderFees-too-small"} {
		tl := tallies[kind]
		totalN += tl.n
		totalMismatch += tl.mismatch
		fmt.Printf("RAC-NOTE inconsistent-input-mismatch[%s] %d/%d (created>expected %d, created<expected %d, other assertion violations %d)\n",
			kind, tl.mismatch, tl.n, tl.over, tl.under, tl.otherFails)
		if tl.example != "" {
			fmt.Printf("RAC-NOTE inconsistent-input-mismatch[%s] example %s\n", kind, tl.example)
		}
	}
	fmt.Printf("RAC-NOTE inconsistent-input-mismatch %d/%d\n", totalMismatch, totalN)
}
