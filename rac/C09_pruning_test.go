package state_test

// Bounded stand-in for the whole-history part of C09 that the contracts cannot decide: across sequences of commits,
// finalisations and rollbacks issued as process/block/baseProcess.go issues them (updateStateStorage: unless the root is unchanged,
// CancelPrune(previous root, NewRoot) + PruneTrie(previous root, OldRoot); PruneStateOnRollback: RecreateTrie(previous root) and,
// unless the root is unchanged, CancelPrune(previous root, OldRoot) + PruneTrie(rolled-back root, NewRoot)), with pruning blocked /
// unblocked at arbitrary points, every
// leaf of the main trie and of every account data trie of every LIVE root (last finalised root + pending roots) stays readable
// with the content it had at commit time; roots that were pruned while unblocked are gone.
// Bound: racC09Histories pseudo-random histories of 7 steps over 3 accounts (balance changes, data-trie writes / overwrites /
// deletions, account removal) plus a block-counter account (as nonces do on a real chain, it keeps a root from re-appearing later;
// empty blocks with an unchanged root are included), at most 2 pending blocks, pruning buffer 1000, eviction cache 100, real trie / storage manager /
// waiting list / pruning manager on in-memory databases.
// Prints "RAC-EVALS n"; any failure prints "RAC-FAIL ...".

import (
	"encoding/hex"
	"fmt"
	"math/big"
	"math/rand"
	"os"
	"testing"

	"github.com/ElrondNetwork/elrond-go/data"
	"github.com/ElrondNetwork/elrond-go/data/mock"
	"github.com/ElrondNetwork/elrond-go/data/state"
	"github.com/ElrondNetwork/elrond-go/data/state/factory"
	"github.com/ElrondNetwork/elrond-go/data/trie/hashesHolder"
	"github.com/ElrondNetwork/elrond-go/testscommon"
)

func racC09Leaves(adb *state.AccountsDB, root []byte) (string, error) {
	ch, err := adb.GetAllLeaves(root)
	if err != nil {
		return "", err
	}
	out := ""
	n := 0
	for l := range ch {
		out += hex.EncodeToString(l.Key()) + ":" + hex.EncodeToString(l.Value()) + ";"
		n++
	}
	return fmt.Sprintf("%d|%s", n, out), nil
}

// digest of the whole state below root: main trie leaves + leaves of every data trie
func racC09State(adb *state.AccountsDB, root []byte) (string, error) {
	ch, err := adb.GetAllLeaves(root)
	if err != nil {
		return "", err
	}
	marsh := &mock.MarshalizerMock{}
	out := ""
	var dataRoots [][]byte
	for l := range ch {
		out += hex.EncodeToString(l.Key()) + ":" + hex.EncodeToString(l.Value()) + ";"
		acc, _ := factory.NewAccountCreator().CreateAccount(make([]byte, 32))
		if marsh.Unmarshal(acc, l.Value()) == nil {
			ua, ok := acc.(state.UserAccountHandler)
			if ok && len(ua.GetRootHash()) > 0 {
				dataRoots = append(dataRoots, ua.GetRootHash())
			}
		}
	}
	for _, dr := range dataRoots {
		s, errD := racC09Leaves(adb, dr)
		if errD != nil {
			return "", fmt.Errorf("data trie %x: %w", dr, errD)
		}
		out += "#" + hex.EncodeToString(dr) + "=" + s
	}
	return out, nil
}

var racC09Histories = 150

// safety: live roots stay retrievable
func TestRAC_C09_live_roots_stay_retrievable(t *testing.T) { racC09Run(t, false) }

// removal: roots pruned while pruning is not blocked are gone afterwards (FAILS today: finding F09, a cancel-prune request buffered
// during a rollback is replayed after a later commit from the same parent root and cancels THAT commit's OldRoot list)
func TestRAC_C09_pruned_roots_are_removed(t *testing.T) { racC09Run(t, true) }

func racC09Run(t *testing.T, checkRemoval bool) {
	evals := 0
	fail := func(f string, a ...interface{}) {
		fmt.Println("RAC-FAIL " + fmt.Sprintf(f, a...))
		t.Fail()
	}
	if os.Getenv("VERIF_TIER") == "thorough" {
		racC09Histories = 600
	}
	for seed := 0; seed < racC09Histories; seed++ {
		rnd := rand.New(rand.NewSource(int64(seed)))
		adb, _, tsm := getDefaultStateComponents(hashesHolder.NewCheckpointHashesHolder(10000000, testscommon.HashSize))
		addrs := make([][]byte, 3)
		for i := range addrs {
			addrs[i] = make([]byte, 32)
			addrs[i][0] = byte(i + 1)
			addrs[i][31] = byte(7 * (i + 1))
		}
		counter := make([]byte, 32)
		counter[0] = 200
		mutate := func() {
			if rnd.Intn(6) == 0 {
				return // empty block: the root does not change
			}
			cacc, _ := adb.LoadAccount(counter)
			cacc.(state.UserAccountHandler).IncreaseNonce(1)
			_ = adb.SaveAccount(cacc)
			k := 1 + rnd.Intn(2)
			for j := 0; j < k; j++ {
				a := addrs[rnd.Intn(len(addrs))]
				if rnd.Intn(8) == 0 {
					_ = adb.RemoveAccount(a)
					continue
				}
				acc, err := adb.LoadAccount(a)
				if err != nil {
					fail("seed %d: LoadAccount: %v", seed, err)
					return
				}
				ua := acc.(state.UserAccountHandler)
				_ = ua.AddToBalance(big.NewInt(int64(1 + rnd.Intn(5))))
				if rnd.Intn(2) == 0 {
					key := []byte{byte('a' + rnd.Intn(3))}
					var val []byte
					if rnd.Intn(4) != 0 {
						val = []byte{byte('0' + rnd.Intn(3))}
					}
					_ = ua.DataTrieTracker().SaveKeyValue(key, val)
				}
				if err = adb.SaveAccount(ua); err != nil {
					fail("seed %d: SaveAccount: %v", seed, err)
					return
				}
			}
		}
		expected := map[string]string{}
		commit := func() []byte {
			r, err := adb.Commit()
			if err != nil {
				fail("seed %d: Commit: %v", seed, err)
				return nil
			}
			s, err := racC09State(adb, r)
			if err != nil {
				fail("seed %d: state unreadable right after its commit: %v", seed, err)
				return r
			}
			if old, ok := expected[string(r)]; ok && old != s {
				fail("seed %d: same root, different content", seed)
			}
			expected[string(r)] = s
			return r
		}
		mutate()
		finalRoot := commit()
		var pending [][]byte
		blocked := 0
		prunedWhileUnblocked := map[string]bool{}
		// recognition of the ONE known finding F09 (narrow): a CancelPrune(parent, OldRoot) of a rollback was buffered (pruning
		// blocked or older requests still buffered), then a block was committed on the same parent before the buffer was
		// replayed: the replay evicts the new OldRoot list of that parent, whose obsolete nodes then stay in the database
		outstanding := false              // the pruning buffer holds requests
		staleCancel := map[string]bool{}  // parents with a buffered CancelPrune(parent, OldRoot)
		commitAfter := map[string]bool{}  // ... on which a block was committed since
		f09 := map[string]bool{}
		history := ""
		flush := func() {
			for p := range staleCancel {
				if commitAfter[p] {
					f09[p] = true
				}
			}
			staleCancel = map[string]bool{}
			commitAfter = map[string]bool{}
			outstanding = false
		}
		trace := os.Getenv("RAC_TRACE") != ""
		for step := 0; step < 7 && !t.Failed(); step++ {
			op := rnd.Intn(10)
			if trace {
				fmt.Printf("seed %d step %d op %d final %x pending %x blocked %d\n", seed, step, op, finalRoot[:4], pending, blocked)
			}
			switch {
			case op < 4 && len(pending) < 2:
				parent := finalRoot
				if len(pending) > 0 {
					parent = pending[len(pending)-1]
				}
				mutate()
				r := commit()
				if staleCancel[string(parent)] && string(r) != string(parent) {
					commitAfter[string(parent)] = true
				}
				history += fmt.Sprintf("commit(%x->%x) ", parent[:2], r[:2])
				pending = append(pending, r)
			case op < 7 && len(pending) > 0: // finalise the oldest pending block
				prev := finalRoot
				finalRoot = pending[0]
				pending = pending[1:]
				if string(prev) != string(finalRoot) {
					history += fmt.Sprintf("finalise(prune %x, blocked %d) ", prev[:2], blocked)
					adb.CancelPrune(prev, data.NewRoot)
					adb.PruneTrie(prev, data.OldRoot)
					if blocked == 0 {
						flush()
						prunedWhileUnblocked[string(prev)] = true
					} else {
						outstanding = true
					}
				}
			case op < 9 && len(pending) > 0: // roll back the newest pending block
				cur := pending[len(pending)-1]
				pending = pending[:len(pending)-1]
				prev := finalRoot
				if len(pending) > 0 {
					prev = pending[len(pending)-1]
				}
				if err := adb.RecreateTrie(prev); err != nil {
					fail("seed %d step %d: cannot go back to live root %x: %v", seed, step, prev, err)
				}
				if string(cur) != string(prev) {
					history += fmt.Sprintf("rollback(%x->%x, blocked %d) ", cur[:2], prev[:2], blocked)
					if blocked > 0 || outstanding {
						staleCancel[string(prev)] = true
						outstanding = true
					}
					adb.CancelPrune(prev, data.OldRoot)
					adb.PruneTrie(cur, data.NewRoot)
					if blocked == 0 {
						flush() // the buffered cancel is replayed at once: it evicts the list it was meant for
						delete(f09, string(prev))
					}
				}
			default:
				if blocked > 0 && rnd.Intn(2) == 0 {
					tsm.ExitPruningBufferingMode()
					blocked--
				} else if blocked < 2 {
					tsm.EnterPruningBufferingMode()
					blocked++
				}
			}
			live := append([][]byte{finalRoot}, pending...)
			for _, r := range live {
				delete(prunedWhileUnblocked, string(r))
				if checkRemoval {
					continue
				}
				s, err := racC09State(adb, r)
				evals++
				if err != nil {
					fail("seed %d step %d: live root %x not retrievable: %v", seed, step, r, err)
				} else if s != expected[string(r)] {
					fail("seed %d step %d: live root %x reads different content", seed, step, r)
				}
			}
		}
		for blocked > 0 {
			tsm.ExitPruningBufferingMode()
			blocked--
		}
		// nodes of roots pruned while unblocked are gone (unless the same root is live again)
		for r := range prunedWhileUnblocked {
			if !checkRemoval || r == string(finalRoot) {
				continue
			}
			isPending := false
			for _, p := range pending {
				isPending = isPending || string(p) == r
			}
			if isPending {
				continue
			}
			evals++
			if _, err := tsm.Database().Get([]byte(r)); err == nil {
				if f09[r] {
					fmt.Printf("RAC-KNOWN-FINDING F09: seed %d: root %x pruned while unblocked is still in the database; history: %s\n", seed, []byte(r)[:2], history)
					continue
				}
				fail("seed %d: root %x was pruned while unblocked but its root node is still in the database; history: %s", seed, []byte(r), history)
			}
		}
		_ = adb.Close()
	}
	fmt.Printf("RAC-EVALS %d\n", evals)
}
