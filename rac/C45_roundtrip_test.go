package marshal_test

// Bounded stand-in for the part of C45 the deductive check does not reach: the ~150 generated Marshal / Unmarshal / Size /
// Equal functions of the protocol types (deductively covered: BigIntCaster and the varint primitives they are built from).
// For every generated type of data/block, data/transaction, data/smartContractResult, data/rewardTx, data/receipt,
// data/state, data/batch, data/trie, vm/systemSmartContracts and for N field assignments per type (fields filled by
// reflection from boundary values: varint length boundaries 0,1,2^7-1,2^7,2^14-1,2^14,...,max; nil/empty/1/32/300-byte
// slices; big ints nil,0,+-1,255,256,+-2^64; nested messages nil/filled; lists of length 0..3):
//   deterministic: Marshal twice gives equal bytes, len == Size();  round trip: Unmarshal into a fresh value and into a previously used one, Equal, re-Marshal
//   gives the same bytes;  through marshal.GogoProtoMarshalizer as the node does.
// Bound: N = 200 assignments per type (2000 in the thorough tier).  Prints "RAC-EVALS n"; failures print "RAC-FAIL ...".

import (
	"bytes"
	"fmt"
	"math"
	"math/big"
	"os"
	"reflect"
	"testing"

	"github.com/ElrondNetwork/elrond-go/data/batch"
	"github.com/ElrondNetwork/elrond-go/data/block"
	"github.com/ElrondNetwork/elrond-go/data/receipt"
	"github.com/ElrondNetwork/elrond-go/data/rewardTx"
	"github.com/ElrondNetwork/elrond-go/data/smartContractResult"
	"github.com/ElrondNetwork/elrond-go/data/state"
	"github.com/ElrondNetwork/elrond-go/data/transaction"
	"github.com/ElrondNetwork/elrond-go/data/trie"
	"github.com/ElrondNetwork/elrond-go/marshal"
	"github.com/ElrondNetwork/elrond-go/vm/systemSmartContracts"
)

type racObj interface {
	marshal.GogoProtoObj
	Size() int
	Equal(that interface{}) bool
}

var racTypes = []func() racObj{
	func() racObj { return &block.MiniBlock{} }, func() racObj { return &block.MiniBlockHeader{} },
	func() racObj { return &block.PeerChange{} }, func() racObj { return &block.Header{} },
	func() racObj { return &block.Body{} }, func() racObj { return &block.BodyHeaderPair{} },
	func() racObj { return &block.PeerData{} }, func() racObj { return &block.ShardData{} },
	func() racObj { return &block.EpochStartShardData{} }, func() racObj { return &block.Economics{} },
	func() racObj { return &block.EpochStart{} }, func() racObj { return &block.MetaBlock{} },
	func() racObj { return &transaction.Transaction{} }, func() racObj { return &transaction.Event{} },
	func() racObj { return &transaction.Log{} },
	func() racObj { return &smartContractResult.SmartContractResult{} },
	func() racObj { return &rewardTx.RewardTx{} }, func() racObj { return &receipt.Receipt{} },
	func() racObj { return &state.UserAccountData{} }, func() racObj { return &state.CodeEntry{} },
	func() racObj { return &state.ValidatorInfo{} }, func() racObj { return &state.ShardValidatorInfo{} },
	func() racObj { return &state.SignRate{} }, func() racObj { return &state.ValidatorApiResponse{} },
	func() racObj { return &state.PeerAccountData{} },
	func() racObj { return &batch.Batch{} },
	func() racObj { return &trie.CollapsedBn{} }, func() racObj { return &trie.CollapsedEn{} },
	func() racObj { return &trie.CollapsedLn{} },
	func() racObj { return &systemSmartContracts.GeneralProposal{} }, func() racObj { return &systemSmartContracts.WhiteListProposal{} },
	func() racObj { return &systemSmartContracts.HardForkProposal{} }, func() racObj { return &systemSmartContracts.GovernanceConfig{} },
	func() racObj { return &systemSmartContracts.GovernanceConfigV2{} }, func() racObj { return &systemSmartContracts.VoteDetails{} },
	func() racObj { return &systemSmartContracts.VoteSet{} },
	func() racObj { return &systemSmartContracts.StakingNodesConfig{} }, func() racObj { return &systemSmartContracts.ElementInList{} },
	func() racObj { return &systemSmartContracts.WaitingList{} },
	func() racObj { return &systemSmartContracts.ESDTData{} }, func() racObj { return &systemSmartContracts.ESDTRoles{} },
	func() racObj { return &systemSmartContracts.ESDTConfig{} },
	func() racObj { return &systemSmartContracts.DelegationManagement{} }, func() racObj { return &systemSmartContracts.DelegationContractList{} },
	func() racObj { return &systemSmartContracts.DelegationConfig{} }, func() racObj { return &systemSmartContracts.DelegationMetaData{} },
	func() racObj { return &systemSmartContracts.DelegationContractStatus{} }, func() racObj { return &systemSmartContracts.Fund{} },
	func() racObj { return &systemSmartContracts.DelegatorData{} }, func() racObj { return &systemSmartContracts.GlobalFundData{} },
	func() racObj { return &systemSmartContracts.NodesData{} }, func() racObj { return &systemSmartContracts.RewardComputationData{} },
	func() racObj { return &systemSmartContracts.ValidatorDataV1{} }, func() racObj { return &systemSmartContracts.UnstakedValue{} },
	func() racObj { return &systemSmartContracts.ValidatorDataV2{} }, func() racObj { return &systemSmartContracts.ValidatorConfig{} },
}

var racU64 = []uint64{0, 1, 127, 128, 16383, 16384, 1<<21 - 1, 1 << 21, 1<<28 - 1, 1 << 28, 1<<31 - 1, 1 << 31, 1<<32 - 1, 1 << 35, 1<<56 - 1, 1 << 56, 1<<63 - 1, 1 << 63, math.MaxUint64}
var racI64 = []int64{0, 1, -1, 127, 128, -128, 16384, 1<<31 - 1, -(1 << 31), 1 << 35, math.MaxInt64, math.MinInt64}
var racBytes = [][]byte{nil, {}, {0}, {1}, bytes.Repeat([]byte{0xab}, 32), bytes.Repeat([]byte{0xff}, 300)}
var racStrings = []string{"", "a", "erd1-åß", string(bytes.Repeat([]byte{'x'}, 200))}
var racFloats = []float64{0, 1.5, -2.25, math.MaxFloat32}

func racBig(k uint64) *big.Int {
	two64 := new(big.Int).Lsh(big.NewInt(1), 64)
	switch k % 9 {
	case 0:
		return nil
	case 1:
		return big.NewInt(0)
	case 2:
		return big.NewInt(1)
	case 3:
		return big.NewInt(-1)
	case 4:
		return big.NewInt(255)
	case 5:
		return big.NewInt(256)
	case 6:
		return two64
	case 7:
		return new(big.Int).Neg(two64)
	}
	return new(big.Int).Mul(two64, two64)
}

type racGen struct{ state uint64 }

func (g *racGen) next() uint64 { // splitmix64
	g.state += 0x9e3779b97f4a7c15
	z := g.state
	z = (z ^ (z >> 30)) * 0xbf58476d1ce4e5b9
	z = (z ^ (z >> 27)) * 0x94d049bb133111eb
	return z ^ (z >> 31)
}

var bigPtrType = reflect.TypeOf((*big.Int)(nil))

func (g *racGen) fill(v reflect.Value, depth int) error {
	return g.fillX(v, depth, false)
}

func (g *racGen) fillX(v reflect.Value, depth int, inSlice bool) error {
	t := v.Type()
	if t == bigPtrType {
		if b := racBig(g.next()); b != nil {
			v.Set(reflect.ValueOf(b))
		}
		return nil
	}
	switch t.Kind() {
	case reflect.Bool:
		v.SetBool(g.next()%2 == 0)
	case reflect.Uint32:
		v.SetUint(racU64[g.next()%uint64(len(racU64))] & math.MaxUint32)
	case reflect.Uint64, reflect.Uint:
		v.SetUint(racU64[g.next()%uint64(len(racU64))])
	case reflect.Int32:
		v.SetInt(int64(int32(racI64[g.next()%uint64(len(racI64))])))
	case reflect.Int64, reflect.Int:
		v.SetInt(racI64[g.next()%uint64(len(racI64))])
	case reflect.Float32, reflect.Float64:
		v.SetFloat(racFloats[g.next()%uint64(len(racFloats))])
	case reflect.String:
		v.SetString(racStrings[g.next()%uint64(len(racStrings))])
	case reflect.Slice:
		if t.Elem().Kind() == reflect.Uint8 {
			b := racBytes[g.next()%uint64(len(racBytes))]
			if b != nil {
				v.SetBytes(append([]byte{}, b...))
			}
			return nil
		}
		n := int(g.next() % 4)
		if depth > 2 {
			n = int(g.next() % 2)
		}
		if n == 0 {
			return nil
		}
		s := reflect.MakeSlice(t, n, n)
		for i := 0; i < n; i++ {
			if err := g.fillX(s.Index(i), depth+1, true); err != nil {
				return err
			}
		}
		v.Set(s)
	case reflect.Ptr:
		if t.Elem().Kind() != reflect.Struct {
			return fmt.Errorf("unsupported pointer field %v", t)
		}
		if g.next()%3 == 0 && depth > 0 && !inSlice {
			return nil // nil nested message (never inside a list: generated Marshal panics on a nil list entry)
		}
		p := reflect.New(t.Elem())
		if err := g.fill(p.Elem(), depth+1); err != nil {
			return err
		}
		v.Set(p)
	case reflect.Struct:
		for i := 0; i < t.NumField(); i++ {
			if t.Field(i).PkgPath != "" { // unexported
				continue
			}
			if err := g.fill(v.Field(i), depth+1); err != nil {
				return err
			}
		}
	default:
		return fmt.Errorf("unsupported field kind %v (%v)", t.Kind(), t)
	}
	return nil
}

var racTotalBytes int

func racOne(mk func() racObj, seed uint64) (fail string) {
	defer func() {
		if r := recover(); r != nil {
			fail = fmt.Sprintf("panic: %v", r)
		}
	}()
	m := &marshal.GogoProtoMarshalizer{}
	x := mk()
	g := &racGen{state: seed}
	v := reflect.ValueOf(x).Elem()
	if err := g.fill(v, 0); err != nil {
		return err.Error()
	}
	b1, err := m.Marshal(x)
	if err != nil {
		return "marshal: " + err.Error()
	}
	b2, err := m.Marshal(x)
	if err != nil || !bytes.Equal(b1, b2) {
		return "second Marshal differs"
	}
	racTotalBytes += len(b1)
	if len(b1) != x.Size() {
		return fmt.Sprintf("len(Marshal)=%d Size()=%d", len(b1), x.Size())
	}
	y := mk()
	if err = m.Unmarshal(y, b1); err != nil {
		return "unmarshal: " + err.Error()
	}
	if !x.Equal(y) || !y.Equal(x) {
		return fmt.Sprintf("decoded value not Equal: %v vs %v", x, y)
	}
	b3, err := m.Marshal(y)
	if err != nil || !bytes.Equal(b1, b3) {
		return "re-encoding of the decoded value differs"
	}
	// decoding into a destination that was used before gives the same structure (the marshalizer resets the destination)
	z := mk()
	g2 := &racGen{state: seed + 7919}
	if err := g2.fill(reflect.ValueOf(z).Elem(), 0); err != nil {
		return err.Error()
	}
	if err = m.Unmarshal(z, b1); err != nil {
		return "unmarshal into a used destination: " + err.Error()
	}
	if !x.Equal(z) || !z.Equal(x) {
		return fmt.Sprintf("value decoded into a used destination not Equal: %v vs %v", x, z)
	}
	return ""
}

func TestRAC_C45_roundtrip(t *testing.T) {
	perType := 200
	if os.Getenv("VERIF_TIER") == "thorough" {
		perType = 2000
	}
	evals := 0
	for ti, mk := range racTypes {
		for k := 0; k < perType; k++ {
			seed := uint64(ti)*1000003 + uint64(k)
			if f := racOne(mk, seed); f != "" {
				fmt.Printf("RAC-FAIL %T seed %d: %s\n", mk(), seed, f)
				t.Fail()
				fmt.Printf("RAC-EVALS %d\n", evals)
				return
			}
			evals++
		}
	}
	fmt.Printf("RAC-INFO %d types, %d encoded bytes in total\n", len(racTypes), racTotalBytes)
	fmt.Printf("RAC-EVALS %d\n", evals)
}
