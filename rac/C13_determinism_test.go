package sharding

// Bounded stand-in for the top-level claim of C13 (UpdateNodeLists/shuffleNodes as a whole are out of the deductive check's reach:
// removeValidatorsFromList's partition contract is too heavy for the solvers, shuffleList/sortKeys are trusted, map ranges have no
// exhaustion notion in the engine).
// Claim checked: the same eligible / waiting / new / leaving validators, randomness and epoch give the same eligible, waiting, leaving and
// still-remaining lists (same validators, same order in every list) - however the input maps are built.
// Every logical input is evaluated 8 times; each evaluation rebuilds the input maps with the shards inserted in another order, with
// dummy shards inserted and deleted before (other bucket layout), with other spare capacities of the lists, on a fresh shuffler;
// Go's own randomised map iteration order differs from evaluation to evaluation as well.
// Bound: 1..3 shards + metachain, minimum sizes 1..3, eligible 0..5 and waiting 0..4 per shard, leaving lists = pseudo-random subsets
// (with an unknown key and duplicates now and then), 0..3 new nodes, swap cap 0..3, both distributors, balance flag and waiting-list
// fix on/off. Prints "RAC-EVALS n"; any failure prints "RAC-FAIL ...".

import (
	"fmt"
	"math/rand"
	"os"
	"sort"
	"strings"
	"testing"

	"github.com/ElrondNetwork/elrond-go/config"
	"github.com/ElrondNetwork/elrond-go/core"
)

func rac13Val(id int) Validator {
	v, _ := NewValidator([]byte(fmt.Sprintf("pk-%04d", id)), 1, uint32(id))
	return v
}

// rac13List builds a list of fresh validator objects with a pseudo-random spare capacity
func rac13List(ids []int, rnd *rand.Rand) []Validator {
	l := make([]Validator, 0, len(ids)+rnd.Intn(4))
	for _, id := range ids {
		l = append(l, rac13Val(id))
	}
	return l
}

// rac13Map builds the map shard -> list with the shards inserted in a pseudo-random order (and a perturbed bucket layout)
func rac13Map(lists map[uint32][]int, rnd *rand.Rand) map[uint32][]Validator {
	m := make(map[uint32][]Validator, rnd.Intn(16))
	dummies := rnd.Intn(12)
	for i := 0; i < dummies; i++ {
		m[uint32(1000+rnd.Intn(5000))] = nil
	}
	var shards []uint32
	for s := range lists {
		shards = append(shards, s)
	}
	sort.Slice(shards, func(i, j int) bool { return shards[i] < shards[j] })
	rnd.Shuffle(len(shards), func(i, j int) { shards[i], shards[j] = shards[j], shards[i] })
	for _, s := range shards {
		m[s] = rac13List(lists[s], rnd)
	}
	for s := range m {
		if s >= 1000 && s != core.MetachainShardId {
			delete(m, s)
		}
	}
	return m
}

func rac13Keys(l []Validator) string {
	var sb strings.Builder
	for _, v := range l {
		sb.WriteString(string(v.PubKey()))
		sb.WriteString(",")
	}
	return sb.String()
}

func rac13Canon(res *ResUpdateNodes, err error) string {
	if err != nil {
		return "error: " + err.Error()
	}
	var sb strings.Builder
	for _, part := range []struct {
		name string
		m    map[uint32][]Validator
	}{{"E", res.Eligible}, {"W", res.Waiting}} {
		var shards []uint32
		for s := range part.m {
			shards = append(shards, s)
		}
		sort.Slice(shards, func(i, j int) bool { return shards[i] < shards[j] })
		for _, s := range shards {
			sb.WriteString(fmt.Sprintf("%s[%d]=%s;", part.name, s, rac13Keys(part.m[s])))
		}
	}
	sb.WriteString("L=" + rac13Keys(res.Leaving) + ";R=" + rac13Keys(res.StillRemaining))
	return sb.String()
}

func TestRAC_C13_determinism(t *testing.T) {
	cases := 20000
	if os.Getenv("VERIF_TIER") == "thorough" {
		cases = 200000
	}
	const evalsPerCase = 8
	rnd := rand.New(rand.NewSource(13))
	evals := 0
	for c := 0; c < cases; c++ {
		nbShards := uint32(1 + rnd.Intn(3))
		minShard := uint32(1 + rnd.Intn(3))
		minMeta := uint32(1 + rnd.Intn(3))
		shardIds := []uint32{core.MetachainShardId}
		for s := uint32(0); s < nbShards; s++ {
			shardIds = append(shardIds, s)
		}
		next := 0
		eligible := map[uint32][]int{}
		waiting := map[uint32][]int{}
		var all []int
		for _, s := range shardIds {
			min := int(minShard)
			if s == core.MetachainShardId {
				min = int(minMeta)
			}
			e, w := rnd.Intn(6), rnd.Intn(5)
			if rnd.Intn(10) != 0 { // mostly above the minimum (below it UpdateNodeLists returns an error, compared as well)
				for e+w < min {
					e++
				}
			}
			eligible[s] = []int{}
			for i := 0; i < e; i++ {
				eligible[s] = append(eligible[s], next)
				next++
			}
			if w > 0 || rnd.Intn(2) == 0 {
				waiting[s] = []int{}
			}
			for i := 0; i < w; i++ {
				waiting[s] = append(waiting[s], next)
				next++
			}
			all = append(all, eligible[s]...)
			all = append(all, waiting[s]...)
		}
		pick := func() []int {
			var l []int
			for _, v := range all {
				if rnd.Intn(3) == 0 {
					l = append(l, v)
				}
			}
			rnd.Shuffle(len(l), func(i, j int) { l[i], l[j] = l[j], l[i] })
			if rnd.Intn(4) == 0 {
				l = append(l, 9000+rnd.Intn(5)) // unknown key
			}
			if len(l) > 0 && rnd.Intn(4) == 0 {
				l = append(l, l[rnd.Intn(len(l))]) // duplicate request
			}
			return l
		}
		unstake, additional := pick(), pick()
		var newNodes []int
		for i := rnd.Intn(4); i > 0; i-- {
			newNodes = append(newNodes, next)
			next++
		}
		shufflerArgs := &NodesShufflerArgs{
			NodesShard:                     minShard,
			NodesMeta:                      minMeta,
			Hysteresis:                     0.2,
			Adaptivity:                     false,
			ShuffleBetweenShards:           rnd.Intn(2) == 0,
			MaxNodesEnableConfig:           []config.MaxNodesChangeConfig{{EpochEnable: 0, MaxNumNodes: 100, NodesToShufflePerShard: uint32(rnd.Intn(4))}},
			BalanceWaitingListsEnableEpoch: uint32(rnd.Intn(2) * 100),
			WaitingListFixEnableEpoch:      uint32(rnd.Intn(2) * 100),
		}
		randomness := []byte(fmt.Sprintf("rand-%d", c))
		first := ""
		for k := 0; k < evalsPerCase; k++ {
			shuffler, errNew := NewHashValidatorsShuffler(shufflerArgs)
			if errNew != nil {
				fmt.Printf("RAC-FAIL C13 case %d: cannot create the shuffler: %v\n", c, errNew)
				t.Fail()
				return
			}
			args := ArgsUpdateNodes{
				Eligible:          rac13Map(eligible, rnd),
				Waiting:           rac13Map(waiting, rnd),
				NewNodes:          rac13List(newNodes, rnd),
				UnStakeLeaving:    rac13List(unstake, rnd),
				AdditionalLeaving: rac13List(additional, rnd),
				Rand:              append(make([]byte, 0, len(randomness)+rnd.Intn(3)), randomness...),
				NbShards:          nbShards,
				Epoch:             1,
			}
			res, err := shuffler.UpdateNodeLists(args)
			evals++
			got := rac13Canon(res, err)
			if k == 0 {
				first = got
				continue
			}
			if got != first {
				fmt.Printf("RAC-FAIL C13 case %d evaluation %d: results differ for the same validators, randomness and epoch\n  first: %s\n  now:   %s\n", c, k, first, got)
				t.Fail()
				return
			}
		}
	}
	fmt.Printf("RAC-EVALS %d\n", evals)
}
