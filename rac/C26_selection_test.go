package txcache

// Bounded stand-in for the top level of C26 (TxCache.doSelectTransactions end to end), for the clauses the deductive
// check states per batch only (selectBatchTo) or leaves open (distinctness / pooledness of the merged result):
//   1. at most numRequested results, pairwise distinct, all of them pooled
//   2. per sender: the selected transactions are the first ones of its list, in list order
//   3. per sender: consecutive selected nonces never skip a value
//   4. a sender whose lowest pooled nonce is above its (known) account nonce contributes nothing, at most one in its grace period
// Bound: sender A = every subset of nonces {0..5} (plus optionally a second, cheaper transaction for its lowest nonce),
// sender B in {none, {1,2}, {0,2}}, account nonce of A in {unknown,0,1,3}, numRequested 0..7, batch size 1..3,
// three selections in a row on the same pool (grace period counter).
// Prints "RAC-EVALS n"; any failure prints "RAC-FAIL ...".

import (
	"fmt"
	"testing"
)

func racC26Cache() *TxCache {
	txGasHandler, _ := dummyParams()
	cache, err := NewTxCache(ConfigSourceMe{
		Name:                       "rac",
		NumChunks:                  4,
		NumBytesPerSenderThreshold: maxNumBytesPerSenderUpperBound,
		CountPerSenderThreshold:    1000,
	}, txGasHandler)
	if err != nil {
		panic(err)
	}
	return cache
}

func racC26ListOf(cache *TxCache, sender string) []*WrappedTransaction {
	l, ok := cache.txListBySender.getListForSender(sender)
	if !ok {
		return nil
	}
	var out []*WrappedTransaction
	for e := l.items.Front(); e != nil; e = e.Next() {
		out = append(out, e.Value.(*WrappedTransaction))
	}
	return out
}

func racC26Check(cache *TxCache, senders []string, sel []*WrappedTransaction, numRequested int, gapBefore map[string]bool) string {
	if len(sel) > numRequested {
		return fmt.Sprintf("more than requested: %d > %d", len(sel), numRequested)
	}
	seen := map[*WrappedTransaction]bool{}
	for _, tx := range sel {
		if tx == nil {
			return "nil transaction selected"
		}
		if seen[tx] {
			return "transaction selected twice"
		}
		seen[tx] = true
	}
	pooled := 0
	for _, s := range senders {
		list := racC26ListOf(cache, s)
		var sub []*WrappedTransaction
		for _, tx := range sel {
			if string(tx.Tx.GetSndAddr()) == s {
				sub = append(sub, tx)
			}
		}
		pooled += len(sub)
		if len(sub) > len(list) {
			return "selected more than pooled for " + s
		}
		for i := range sub {
			if sub[i] != list[i] {
				return fmt.Sprintf("sender %s: selection is not a prefix of its list (position %d)", s, i)
			}
			if i > 0 && sub[i].Tx.GetNonce() > sub[i-1].Tx.GetNonce()+1 {
				return fmt.Sprintf("sender %s: nonce skipped: %d selected right after %d", s, sub[i].Tx.GetNonce(), sub[i-1].Tx.GetNonce())
			}
		}
		if gapBefore[s] {
			l, _ := cache.txListBySender.getListForSender(s)
			grace := l.isInGracePeriod()
			if len(sub) > 1 || (len(sub) == 1 && !grace) {
				return fmt.Sprintf("sender %s has an initial gap but contributed %d (grace=%v)", s, len(sub), grace)
			}
		}
	}
	if pooled != len(sel) {
		return "a selected transaction is not pooled"
	}
	return ""
}

func TestRAC_C26_selection(t *testing.T) {
	evals := 0
	fails := map[string]bool{}
	report := func(kind, what string) {
		if !fails[kind] {
			fails[kind] = true
			fmt.Println("RAC-FAIL", what)
			t.Fail()
		}
	}
	bOptions := [][]uint64{nil, {1, 2}, {0, 2}}
	accountNonces := []int{-1, 0, 1, 3}
	for mask := 0; mask < 64; mask++ {
		for dup := 0; dup < 2; dup++ {
			for _, bNonces := range bOptions {
				for _, acc := range accountNonces {
					for numRequested := 0; numRequested <= 7; numRequested++ {
						for batch := 1; batch <= 3; batch++ {
							cache := racC26Cache()
							lowest := -1
							for n := 5; n >= 0; n-- { // added in descending order: exercises the sorted insert
								if mask&(1<<uint(n)) != 0 {
									cache.AddTx(createTxWithParams([]byte(fmt.Sprintf("a-%d", n)), "alice", uint64(n), 200, 50000, 200))
									lowest = n
								}
							}
							if dup == 1 && lowest >= 0 {
								cache.AddTx(createTxWithParams([]byte(fmt.Sprintf("a-%d-cheap", lowest)), "alice", uint64(lowest), 200, 50000, 100))
							}
							for _, n := range bNonces {
								cache.AddTx(createTxWithParams([]byte(fmt.Sprintf("b-%d", n)), "bob", n, 200, 50000, 200))
							}
							if acc >= 0 {
								cache.NotifyAccountNonce([]byte("alice"), uint64(acc))
							}
							senders := []string{"alice", "bob"}
							for round := 0; round < 3; round++ {
								gap := map[string]bool{}
								for _, s := range senders {
									if l, ok := cache.txListBySender.getListForSender(s); ok {
										gap[s] = l.hasInitialGap()
									}
								}
								sel := cache.doSelectTransactions(numRequested, batch)
								evals++
								if msg := racC26Check(cache, senders, sel, numRequested, gap); msg != "" {
									kind := msg
									if len(kind) > 24 {
										kind = kind[:24]
									}
									report(kind, fmt.Sprintf("%s [alice nonces mask=%06b dup=%d bob=%v accountNonce=%d numRequested=%d batch=%d round=%d]", msg, mask, dup, bNonces, acc, numRequested, batch, round))
								}
							}
						}
					}
				}
			}
		}
	}
	fmt.Println("RAC-EVALS", evals)
}
