package txcache

// Bounded stand-in for the history-level claim of C25 (TxCache.AddTx / RemoveTxByHash / doSelectTransactions+sweep /
// NotifyAccountNonce / eviction are outside the deductive check: concurrent maps, closures, goroutines).
// After EVERY operation of a history it checks, by enumerating the per-sender lists:
//   I1  hashes found by hash == hashes held in the per-sender lists
//   I2  CountTx / NumBytes / CountSenders equal the actual contents; no empty sender list is indexed
//   I3  each sender list is ordered by nonce (higher gas price first for equal nonces), no duplicate hash,
//       its totalBytes counter equals the sum of its sizes
//   I4  right after an addition, the sender of the added transaction respects its count and byte limits
//       (KNOWN FINDING F25: applySizeConstraints evicts at most one transaction per addition; while racC25F25IsKnown is
//       true an I4 violation is printed once as "RAC-KNOWN-FINDING F25 ..." and does not fail the run)
// Bound: 2 senders x nonces {0..3} x 2 gas prices x 2 sizes; operations add / remove-by-hash / select(+sweep) /
// account-nonce notification; all histories of length <= 2, plus pseudo-random histories of length 8
// (20 000, or 200 000 in the thorough tier; seed VERIF_SEED); per-sender limits 3 txs / 700 bytes;
// eviction enabled with thresholds 6 txs / 1400 bytes / 1 sender evicted per step.
// Prints "RAC-EVALS n"; any failure prints "RAC-FAIL ...".

import (
	"fmt"
	"math/rand"
	"os"
	"sort"
	"strconv"
	"testing"
)

type racC25Op struct {
	kind   int // 0 add, 1 remove, 2 select+sweep, 3 notify
	sender int
	nonce  int
	price  int
	size   int
}

func (op racC25Op) String() string {
	switch op.kind {
	case 0:
		return fmt.Sprintf("add(s%d,n%d,p%d,z%d)", op.sender, op.nonce, op.price, op.size)
	case 1:
		return fmt.Sprintf("remove(s%d,n%d,p%d,z%d)", op.sender, op.nonce, op.price, op.size)
	case 2:
		return "select+sweep"
	}
	return fmt.Sprintf("notify(s%d,n%d)", op.sender, op.nonce)
}

const racC25F25IsKnown = true

var racC25Senders = []string{"alice", "bob"}
var racC25Prices = []uint64{1000000000, 2000000000}
var racC25Sizes = []uint64{200, 500}

func racC25Hash(op racC25Op) []byte {
	return []byte(fmt.Sprintf("h-%d-%d-%d-%d", op.sender, op.nonce, op.price, op.size))
}

func racC25Alphabet() []racC25Op {
	var ops []racC25Op
	for s := 0; s < 2; s++ {
		for n := 0; n < 4; n++ {
			for p := 0; p < 2; p++ {
				for z := 0; z < 2; z++ {
					ops = append(ops, racC25Op{0, s, n, p, z}, racC25Op{1, s, n, p, z})
				}
			}
			ops = append(ops, racC25Op{3, s, n, 0, 0})
		}
	}
	ops = append(ops, racC25Op{kind: 2})
	return ops
}

func racC25Cache() *TxCache {
	txGasHandler, _ := dummyParams()
	cache, err := NewTxCache(ConfigSourceMe{
		Name:                          "rac",
		NumChunks:                     2,
		EvictionEnabled:               true,
		NumBytesThreshold:             1400,
		NumBytesPerSenderThreshold:    700,
		CountThreshold:                6,
		CountPerSenderThreshold:       3,
		NumSendersToPreemptivelyEvict: 1,
	}, txGasHandler)
	if err != nil {
		panic(err)
	}
	return cache
}

func racC25Apply(cache *TxCache, op racC25Op) {
	switch op.kind {
	case 0:
		cache.AddTx(createTxWithParams(racC25Hash(op), racC25Senders[op.sender], uint64(op.nonce), racC25Sizes[op.size], 50000, racC25Prices[op.price]))
	case 1:
		cache.RemoveTxByHash(racC25Hash(op))
	case 2:
		cache.doSelectTransactions(2, 1)
		cache.sweepSweepable()
	case 3:
		cache.NotifyAccountNonce([]byte(racC25Senders[op.sender]), uint64(op.nonce))
	}
}

func racC25Check(cache *TxCache, last racC25Op) string {
	inLists := map[string]bool{}
	numTxs, numBytes, numSenders := 0, int64(0), 0
	for _, l := range cache.txListBySender.getSnapshotAscending() {
		numSenders++
		if l.items.Len() == 0 {
			return "I2 empty sender list indexed: " + l.sender
		}
		sum := int64(0)
		var prevTx *WrappedTransaction
		for e := l.items.Front(); e != nil; e = e.Next() {
			tx := e.Value.(*WrappedTransaction)
			if string(tx.Tx.GetSndAddr()) != l.sender {
				return "I3 transaction in the list of another sender"
			}
			if inLists[string(tx.TxHash)] {
				return "I3 duplicate hash in sender lists: " + string(tx.TxHash)
			}
			inLists[string(tx.TxHash)] = true
			if prevTx != nil {
				pn, n := prevTx.Tx.GetNonce(), tx.Tx.GetNonce()
				if pn > n || (pn == n && prevTx.Tx.GetGasPrice() < tx.Tx.GetGasPrice()) {
					return fmt.Sprintf("I3 sender %s not ordered: (%d,%d) before (%d,%d)", l.sender, pn, prevTx.Tx.GetGasPrice(), n, tx.Tx.GetGasPrice())
				}
			}
			prevTx = tx
			sum += tx.Size
			numTxs++
		}
		numBytes += sum
		if l.totalBytes.Get() != sum {
			return fmt.Sprintf("I3 sender %s totalBytes %d != sum of sizes %d", l.sender, l.totalBytes.Get(), sum)
		}
		if last.kind == 0 && l.sender == racC25Senders[last.sender] {
			if uint64(l.items.Len()) > uint64(l.constraints.maxNumTxs) || sum > int64(l.constraints.maxNumBytes) {
				return fmt.Sprintf("I4 sender %s above its limits after an addition: %d txs (max %d), %d bytes (max %d)", l.sender, l.items.Len(), l.constraints.maxNumTxs, sum, l.constraints.maxNumBytes)
			}
		}
	}
	var byHash []string
	for _, k := range cache.txByHash.keys() {
		byHash = append(byHash, string(k))
	}
	sort.Strings(byHash)
	if len(byHash) != len(inLists) {
		return fmt.Sprintf("I1 %d transactions found by hash, %d in the sender lists", len(byHash), len(inLists))
	}
	for _, k := range byHash {
		if !inLists[k] {
			return "I1 found by hash but in no sender list: " + k
		}
	}
	if cache.CountTx() != uint64(numTxs) {
		return fmt.Sprintf("I2 CountTx %d != %d", cache.CountTx(), numTxs)
	}
	if int64(cache.NumBytes()) != numBytes {
		return fmt.Sprintf("I2 NumBytes %d != %d", cache.NumBytes(), numBytes)
	}
	if cache.CountSenders() != uint64(numSenders) {
		return fmt.Sprintf("I2 CountSenders %d != %d", cache.CountSenders(), numSenders)
	}
	return ""
}

func TestRAC_C25_indexes(t *testing.T) {
	evals := 0
	fails := map[string]bool{}
	run := func(history []racC25Op) {
		cache := racC25Cache()
		for i, op := range history {
			racC25Apply(cache, op)
			evals++
			if msg := racC25Check(cache, op); msg != "" {
				kind := msg[:2]
				if kind == "I4" && racC25F25IsKnown {
					if !fails[kind] {
						fails[kind] = true
						fmt.Println("RAC-KNOWN-FINDING F25:", msg, "after", fmt.Sprint(history[:i+1]))
					}
					continue
				}
				if !fails[kind] {
					fails[kind] = true
					fmt.Println("RAC-FAIL", msg, "after", fmt.Sprint(history[:i+1]))
					t.Fail()
				}
				return
			}
		}
	}
	alphabet := racC25Alphabet()
	for _, a := range alphabet {
		run([]racC25Op{a})
		for _, b := range alphabet {
			run([]racC25Op{a, b})
		}
	}
	seed, _ := strconv.Atoi(os.Getenv("VERIF_SEED"))
	rnd := rand.New(rand.NewSource(int64(seed) + 25))
	n := 20000
	if os.Getenv("VERIF_TIER") == "thorough" {
		n = 200000
	}
	for i := 0; i < n; i++ {
		h := make([]racC25Op, 8)
		for k := range h {
			// additions twice as likely as the rest
			if rnd.Intn(3) == 0 {
				h[k] = alphabet[rnd.Intn(len(alphabet))]
			} else {
				h[k] = racC25Op{0, rnd.Intn(2), rnd.Intn(4), rnd.Intn(2), rnd.Intn(2)}
			}
		}
		run(h)
	}
	fmt.Println("RAC-EVALS", evals)
}
