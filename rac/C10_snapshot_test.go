package state_test

// Bounded stand-in for the end-to-end part of C10 that the contracts cannot reach (goroutines, channels): a snapshot taken for
// a state root, and a checkpoint taken for a later root, contain every node of the main trie and of every account data trie:
// the whole state is re-read through a second AccountsDB whose ONLY database is the snapshot database and must equal the state
// read from the live database at commit time. Commits, a finalisation and a rollback are issued while the snapshot is running.
// Bound: racC10Histories pseudo-random states over 4 accounts with data tries (1..3 keys), snapshot of root 1, two further commits
// + prune requests while it runs, checkpoint of the then current root; completion is polled (IsPruningBlocked), 5 s limit.
// Prints "RAC-EVALS n"; any failure prints "RAC-FAIL ...".

import (
	"encoding/hex"
	"fmt"
	"math/big"
	"math/rand"
	"os"
	"testing"
	"time"

	"github.com/ElrondNetwork/elrond-go/config"
	"github.com/ElrondNetwork/elrond-go/data"
	"github.com/ElrondNetwork/elrond-go/data/mock"
	"github.com/ElrondNetwork/elrond-go/data/state"
	"github.com/ElrondNetwork/elrond-go/data/state/factory"
	"github.com/ElrondNetwork/elrond-go/data/state/storagePruningManager/disabled"
	"github.com/ElrondNetwork/elrond-go/data/trie"
	"github.com/ElrondNetwork/elrond-go/data/trie/hashesHolder"
	"github.com/ElrondNetwork/elrond-go/testscommon"
)

func racC10Leaves(adb *state.AccountsDB, root []byte) (string, error) {
	ch, err := adb.GetAllLeaves(root)
	if err != nil {
		return "", err
	}
	out := ""
	n := 0
	for l := range ch {
		out += hex.EncodeToString(l.Key()) + ":" + hex.EncodeToString(l.Value()) + ";"
		n++
	}
	return fmt.Sprintf("%d|%s", n, out), nil
}

// digest of the whole state below root: main trie leaves + leaves of every data trie
func racC10State(adb *state.AccountsDB, root []byte) (string, error) {
	ch, err := adb.GetAllLeaves(root)
	if err != nil {
		return "", err
	}
	marsh := &mock.MarshalizerMock{}
	out := ""
	var dataRoots [][]byte
	for l := range ch {
		out += hex.EncodeToString(l.Key()) + ":" + hex.EncodeToString(l.Value()) + ";"
		acc, _ := factory.NewAccountCreator().CreateAccount(make([]byte, 32))
		if marsh.Unmarshal(acc, l.Value()) == nil {
			ua, ok := acc.(state.UserAccountHandler)
			if ok && len(ua.GetRootHash()) > 0 {
				dataRoots = append(dataRoots, ua.GetRootHash())
			}
		}
	}
	for _, dr := range dataRoots {
		s, errD := racC10Leaves(adb, dr)
		if errD != nil {
			return "", fmt.Errorf("data trie %x: %w", dr, errD)
		}
		out += "#" + hex.EncodeToString(dr) + "=" + s
	}
	return out, nil
}

// an AccountsDB that can read nothing but db
func racC10ReaderOver(db data.DBWriteCacher) *state.AccountsDB {
	marshalizer := &mock.MarshalizerMock{}
	hsh := mock.HasherMock{}
	tsm, _ := trie.NewTrieStorageManager(trie.NewTrieStorageManagerArgs{
		DB: db, Marshalizer: marshalizer, Hasher: hsh,
		SnapshotDbConfig:       config.DBConfig{Type: "MemoryDB"},
		GeneralConfig:          config.TrieStorageManagerConfig{PruningBufferLen: 10, SnapshotsBufferLen: 10, MaxSnapshots: 2},
		CheckpointHashesHolder: hashesHolder.NewCheckpointHashesHolder(10000000, testscommon.HashSize),
	})
	tr, _ := trie.NewTrie(tsm, marshalizer, hsh, 5)
	adb, _ := state.NewAccountsDB(tr, hsh, marshalizer, factory.NewAccountCreator(), disabled.NewDisabledStoragePruningManager())
	return adb
}

func racC10Wait(tsm data.StorageManager) bool {
	for i := 0; i < 500; i++ {
		if !tsm.IsPruningBlocked() {
			return true
		}
		time.Sleep(10 * time.Millisecond)
	}
	return false
}

func TestRAC_C10_snapshot_and_checkpoint_complete(t *testing.T) {
	evals := 0
	fail := func(f string, a ...interface{}) {
		fmt.Println("RAC-FAIL " + fmt.Sprintf(f, a...))
		t.Fail()
	}
	histories := 40
	if os.Getenv("VERIF_TIER") == "thorough" {
		histories = 200
	}
	for seed := 0; seed < histories && !t.Failed(); seed++ {
		rnd := rand.New(rand.NewSource(int64(1000 + seed)))
		adb, _, tsm := getDefaultStateComponents(hashesHolder.NewCheckpointHashesHolder(10000000, testscommon.HashSize))
		mutate := func() {
			n := 1 + rnd.Intn(4)
			for j := 0; j < n; j++ {
				a := make([]byte, 32)
				a[0] = byte(1 + rnd.Intn(4))
				acc, _ := adb.LoadAccount(a)
				ua := acc.(state.UserAccountHandler)
				_ = ua.AddToBalance(big.NewInt(int64(1 + rnd.Intn(9))))
				for k := rnd.Intn(4); k > 0; k-- {
					_ = ua.DataTrieTracker().SaveKeyValue([]byte{byte('a' + rnd.Intn(3))}, []byte{byte('0' + rnd.Intn(5)), byte(seed)})
				}
				_ = adb.SaveAccount(ua)
			}
		}
		want := map[string]string{}
		commit := func() []byte {
			r, err := adb.Commit()
			if err != nil {
				fail("seed %d: commit: %v", seed, err)
				return nil
			}
			want[string(r)], err = racC10State(adb, r)
			if err != nil {
				fail("seed %d: state unreadable after commit: %v", seed, err)
			}
			return r
		}
		mutate()
		r1 := commit()
		adb.SnapshotState(r1)
		// the chain goes on while the snapshot runs
		mutate()
		r2 := commit()
		adb.CancelPrune(r1, data.NewRoot)
		adb.PruneTrie(r1, data.OldRoot) // finalisation of block 2: r1 is pruned (buffered while the snapshot runs)
		mutate()
		r3 := commit()
		if rnd.Intn(2) == 0 { // rollback of block 3
			_ = adb.RecreateTrie(r2)
			adb.CancelPrune(r2, data.OldRoot)
			adb.PruneTrie(r3, data.NewRoot)
			r3 = r2
		}
		if !racC10Wait(tsm) {
			fail("seed %d: snapshot did not finish", seed)
			continue
		}
		snap := tsm.GetSnapshotThatContainsHash(r1)
		if snap == nil {
			fail("seed %d: no snapshot database holds the snapshotted root", seed)
			continue
		}
		got, err := racC10State(racC10ReaderOver(snap), r1)
		evals++
		if err != nil {
			fail("seed %d: snapshot of %x incomplete: %v", seed, r1, err)
		} else if got != want[string(r1)] {
			fail("seed %d: snapshot of %x reads different content", seed, r1)
		}
		snap.DecreaseNumReferences()

		adb.SetStateCheckpoint(r3)
		if !racC10Wait(tsm) {
			fail("seed %d: checkpoint did not finish", seed)
			continue
		}
		ck := tsm.GetSnapshotThatContainsHash(r3)
		if ck == nil {
			fail("seed %d: no snapshot database holds the checkpointed root", seed)
			continue
		}
		got, err = racC10State(racC10ReaderOver(ck), r3)
		evals++
		if err != nil {
			fail("seed %d: checkpoint of %x incomplete: %v", seed, r3, err)
		} else if got != want[string(r3)] {
			fail("seed %d: checkpoint of %x reads different content", seed, r3)
		}
		ck.DecreaseNumReferences()
	}
	fmt.Printf("RAC-EVALS %d\n", evals)
}
