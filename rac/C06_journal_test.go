package state_test

// Bounded stand-in for C06 (and the whole-history half of C07): the statement quantifies over HISTORIES of operations on
// an AccountsDB, which no per-function contract reaches. This harness runs short histories on a REAL AccountsDB (real
// patricia-merkle trie over a memory DB, GogoProtoMarshalizer, sha256, the production account factory) against a
// reference state and compares after EVERY step:
//   C06  every account: existence, nonce, balance, owner, code hash, code (GetCode), code metadata, the value of every
//        storage key (DataTrieTracker().RetrieveValue); after a revert also the main root hash recorded at that point.
//   C07  for every code blob: the leaf under its hash exists in the main trie iff some account refers to it, and its
//        NumReferences equals the number of such accounts.
// A snapshot is only the journal length, so EVERY point of a history is a snapshot point; "revert r" goes back to the
// r-th most recent still valid point (nested reverts), "revert zero" to journal length 0 (the last committed state).
// Operations: touch (nonce, balance, owner), set code c1 / c2 / clear, write k1 / k2, delete k1, combo (code + two
// writes + nonce in ONE SaveAccount), RemoveAccount, revert r in 0..3, revert zero, Commit.
// Scope (standard tier): all histories of <= 3 operations over 2 accounts (24 operations) from two committed base states
// (empty; A with code c1 and storage, B sharing c1), all histories of 4 operations over one account with 9 operations
// (thorough: all 15), a family of 5-operation histories around remove/re-create/revert, and 1500 (thorough: 20000)
// random histories of 4..8 operations over 3 accounts.
// Prints "RAC-EVALS n"; any failure prints "RAC-FAIL ...".
//
// The histories are split in two tests: those in which NO account is saved again after its removal inside one journal
// span (expected green), and those with such a re-creation (suspected defect F06).

import (
	"bytes"
	"fmt"
	"math/big"
	"math/rand"
	"os"
	"reflect"
	"strconv"
	"strings"
	"testing"
	"unsafe"

	"github.com/ElrondNetwork/elrond-go/config"
	"github.com/ElrondNetwork/elrond-go/data"
	"github.com/ElrondNetwork/elrond-go/data/mock"
	"github.com/ElrondNetwork/elrond-go/data/state"
	"github.com/ElrondNetwork/elrond-go/data/state/factory"
	"github.com/ElrondNetwork/elrond-go/data/state/storagePruningManager/disabled"
	"github.com/ElrondNetwork/elrond-go/data/trie"
	"github.com/ElrondNetwork/elrond-go/data/trie/hashesHolder"
	"github.com/ElrondNetwork/elrond-go/hashing/sha256"
	"github.com/ElrondNetwork/elrond-go/marshal"
)

const racMaxAcc = 3

var racCodes = [][]byte{nil, []byte("contract code number one"), []byte("second contract code, a bit longer than the first")}
var racKeys = [][]byte{[]byte("key-1"), []byte("key-2")}
var racMarsh = &marshal.GogoProtoMarshalizer{}
var racHash = sha256.NewSha256()

func racAddr(i int) []byte {
	a := bytes.Repeat([]byte{byte(0x10 + i)}, 32)
	return a
}

type racAccount struct {
	exists  bool
	nonce   uint64
	balance int64
	owner   string
	meta    string
	code    int // index into racCodes, 0 = no code
	storage [2]string
}

type racState [racMaxAcc]racAccount

const (
	opTouch = iota
	opSetCode
	opWrite
	opDelete
	opCombo
	opRemove
	opRevert
	opRevertZero
	opCommit
)

type racOp struct{ kind, acc, arg int }

func (o racOp) String() string {
	a := string(rune('A' + o.acc))
	switch o.kind {
	case opTouch:
		return "touch(" + a + ")"
	case opSetCode:
		return fmt.Sprintf("setCode(%s,c%d)", a, o.arg)
	case opWrite:
		return fmt.Sprintf("write(%s,k%d)", a, o.arg+1)
	case opDelete:
		return fmt.Sprintf("delete(%s,k%d)", a, o.arg+1)
	case opCombo:
		return "combo(" + a + ")"
	case opRemove:
		return "remove(" + a + ")"
	case opRevert:
		return fmt.Sprintf("revert(%d back)", o.arg)
	case opRevertZero:
		return "revertToZero"
	}
	return "commit"
}

func racHistory(h []racOp) string {
	s := make([]string, len(h))
	for i, o := range h {
		s[i] = o.String()
	}
	return strings.Join(s, "; ")
}

func racAlphabet(nAcc int) []racOp {
	var ops []racOp
	for a := 0; a < nAcc; a++ {
		ops = append(ops, racOp{opTouch, a, 0}, racOp{opSetCode, a, 0}, racOp{opSetCode, a, 1}, racOp{opSetCode, a, 2},
			racOp{opWrite, a, 0}, racOp{opWrite, a, 1}, racOp{opDelete, a, 0}, racOp{opCombo, a, 0}, racOp{opRemove, a, 0})
	}
	for r := 0; r <= 3; r++ {
		ops = append(ops, racOp{opRevert, 0, r})
	}
	return append(ops, racOp{opRevertZero, 0, 0}, racOp{opCommit, 0, 0})
}

// an account saved again after its removal, with no Commit in between (the shape of F06)
func racHasRecreation(h []racOp) bool {
	var removed [racMaxAcc]bool
	for _, o := range h {
		switch o.kind {
		case opCommit:
			removed = [racMaxAcc]bool{}
		case opRemove:
			removed[o.acc] = true
		case opTouch, opSetCode, opWrite, opDelete, opCombo:
			if removed[o.acc] {
				return true
			}
		}
	}
	return false
}

func racNewAccountsDB() *state.AccountsDB {
	generalCfg := config.TrieStorageManagerConfig{PruningBufferLen: 1000, SnapshotsBufferLen: 10, MaxSnapshots: 2}
	args := trie.NewTrieStorageManagerArgs{
		DB:                     mock.NewMemDbMock(),
		Marshalizer:            racMarsh,
		Hasher:                 racHash,
		SnapshotDbConfig:       config.DBConfig{Type: "MemoryDB"},
		GeneralConfig:          generalCfg,
		CheckpointHashesHolder: hashesHolder.NewCheckpointHashesHolder(10000000, 32),
	}
	trieStorage, err := trie.NewTrieStorageManager(args)
	if err != nil {
		panic(err)
	}
	tr, err := trie.NewTrie(trieStorage, racMarsh, racHash, 5)
	if err != nil {
		panic(err)
	}
	adb, err := state.NewAccountsDB(tr, racHash, racMarsh, factory.NewAccountCreator(), disabled.NewDisabledStoragePruningManager())
	if err != nil {
		panic(err)
	}
	return adb
}

// the trie AccountsDB currently uses as main trie (unexported field; read-only peek for the C07 leaf check)
func racMainTrie(adb *state.AccountsDB) data.Trie {
	f := reflect.ValueOf(adb).Elem().FieldByName("mainTrie")
	return *(*data.Trie)(unsafe.Pointer(f.UnsafeAddr()))
}

type racRun struct {
	adb   *state.AccountsDB
	ref   racState
	step  int
	evals int
}

func racValue(step, acc, key int) string { return fmt.Sprintf("value-%d-%d-%d", step, acc, key) }

// one mutation of one account through the public API: LoadAccount, mutate, SaveAccount; mirrors it on the reference
func (r *racRun) save(o racOp) string {
	h, err := r.adb.LoadAccount(racAddr(o.acc))
	if err != nil {
		return "LoadAccount: " + err.Error()
	}
	ua, ok := h.(state.UserAccountHandler)
	if !ok {
		return "LoadAccount did not return a user account"
	}
	ra := &r.ref[o.acc]
	ra.exists = true
	setCode := func(c int) {
		ua.SetCode(racCodes[c])
		ua.SetCodeMetadata([]byte{byte(0x40 + c)})
		ra.code = c
		ra.meta = string([]byte{byte(0x40 + c)})
	}
	write := func(k int) string {
		v := racValue(r.step, o.acc, k)
		if e := ua.DataTrieTracker().SaveKeyValue(racKeys[k], []byte(v)); e != nil {
			return "SaveKeyValue: " + e.Error()
		}
		ra.storage[k] = v
		return ""
	}
	touch := func() {
		ua.IncreaseNonce(1)
		_ = ua.AddToBalance(big.NewInt(int64(r.step + 1)))
		ua.SetOwnerAddress([]byte("owner-" + strconv.Itoa(r.step)))
		ra.nonce++
		ra.balance += int64(r.step + 1)
		ra.owner = "owner-" + strconv.Itoa(r.step)
	}
	switch o.kind {
	case opTouch:
		touch()
	case opSetCode:
		setCode(o.arg)
	case opWrite:
		if s := write(o.arg); s != "" {
			return s
		}
	case opDelete:
		if e := ua.DataTrieTracker().SaveKeyValue(racKeys[o.arg], nil); e != nil {
			return "SaveKeyValue(delete): " + e.Error()
		}
		ra.storage[o.arg] = ""
	case opCombo:
		touch()
		setCode(1)
		if s := write(0); s != "" {
			return s
		}
		if s := write(1); s != "" {
			return s
		}
	}
	if err = r.adb.SaveAccount(ua); err != nil {
		return "SaveAccount: " + err.Error()
	}
	return ""
}

// compares everything observable with the reference; "" when equal
func (r *racRun) check(nAcc int) string {
	var refs [3]int
	for a := 0; a < nAcc; a++ {
		ra := r.ref[a]
		r.evals++
		h, err := r.adb.GetExistingAccount(racAddr(a))
		if !ra.exists {
			if err == nil {
				return fmt.Sprintf("account %c exists, must be absent", 'A'+a)
			}
			continue
		}
		if err != nil {
			return fmt.Sprintf("account %c: GetExistingAccount: %v", 'A'+a, err)
		}
		refs[ra.code]++
		ua := h.(state.UserAccountHandler)
		if ua.GetNonce() != ra.nonce {
			return fmt.Sprintf("account %c nonce %d, want %d", 'A'+a, ua.GetNonce(), ra.nonce)
		}
		if ua.GetBalance().Cmp(big.NewInt(ra.balance)) != 0 {
			return fmt.Sprintf("account %c balance %v, want %d", 'A'+a, ua.GetBalance(), ra.balance)
		}
		if string(ua.GetOwnerAddress()) != ra.owner {
			return fmt.Sprintf("account %c owner %q, want %q", 'A'+a, ua.GetOwnerAddress(), ra.owner)
		}
		if string(ua.GetCodeMetadata()) != ra.meta {
			return fmt.Sprintf("account %c code metadata %x, want %x", 'A'+a, ua.GetCodeMetadata(), ra.meta)
		}
		var wantHash []byte
		if ra.code != 0 {
			wantHash = racHash.Compute(string(racCodes[ra.code]))
		}
		if !bytes.Equal(ua.GetCodeHash(), wantHash) {
			return fmt.Sprintf("account %c code hash %x, want %x", 'A'+a, ua.GetCodeHash(), wantHash)
		}
		if !bytes.Equal(r.adb.GetCode(ua.GetCodeHash()), racCodes[ra.code]) {
			return fmt.Sprintf("account %c code %q, want %q", 'A'+a, r.adb.GetCode(ua.GetCodeHash()), racCodes[ra.code])
		}
		for k := range racKeys {
			r.evals++
			v, _ := ua.DataTrieTracker().RetrieveValue(racKeys[k])
			if string(v) != ra.storage[k] {
				return fmt.Sprintf("account %c storage %s reads %q, want %q", 'A'+a, racKeys[k], v, ra.storage[k])
			}
		}
	}
	// C07: one leaf per referenced code, counter == number of referring accounts
	main := racMainTrie(r.adb)
	for c := 1; c < len(racCodes); c++ {
		r.evals++
		leaf, err := main.Get(racHash.Compute(string(racCodes[c])))
		if err != nil {
			return fmt.Sprintf("code c%d: main trie Get: %v", c, err)
		}
		if refs[c] == 0 {
			if len(leaf) != 0 {
				return fmt.Sprintf("C07: code c%d has an entry but no account refers to it", c)
			}
			continue
		}
		if len(leaf) == 0 {
			return fmt.Sprintf("C07: code c%d is referred to by %d accounts but has no entry", c, refs[c])
		}
		var ce state.CodeEntry
		if err = racMarsh.Unmarshal(&ce, leaf); err != nil {
			return fmt.Sprintf("code c%d: entry does not decode: %v", c, err)
		}
		if int(ce.NumReferences) != refs[c] || !bytes.Equal(ce.Code, racCodes[c]) {
			return fmt.Sprintf("C07: code c%d entry has NumReferences %d, %d accounts refer to it", c, ce.NumReferences, refs[c])
		}
	}
	return ""
}

var racRefusedRemovals int

type racPoint struct {
	jlen int
	ref  racState
	root []byte
}

// runs one history; returns ("", evals) or the first mismatch; skipped=true when a revert has no target point
func racExecute(base int, h []racOp, nAcc int) (fail string, evals int, skipped bool) {
	r := &racRun{adb: racNewAccountsDB()}
	if base == 1 {
		for _, o := range []racOp{{opCombo, 0, 0}, {opSetCode, 1, 1}, {opTouch, 1, 0}} {
			r.step = 90
			if s := r.save(o); s != "" {
				return "base state: " + s, 0, false
			}
		}
	}
	if _, err := r.adb.Commit(); err != nil {
		return "base state: Commit: " + err.Error(), 0, false
	}
	if s := r.check(nAcc); s != "" {
		return "base state: " + s, r.evals, false
	}
	point := func() racPoint {
		root, _ := r.adb.RootHash()
		return racPoint{jlen: r.adb.JournalLen(), ref: r.ref, root: root}
	}
	points := []racPoint{point()}
	for i, o := range h {
		r.step = i
		switch o.kind {
		case opRemove:
			err := r.adb.RemoveAccount(racAddr(o.acc))
			switch {
			case !r.ref[o.acc].exists && err == nil:
				return fmt.Sprintf("step %d %v: RemoveAccount of an absent account succeeded", i, o), r.evals, false
			case r.ref[o.acc].exists && err != nil:
				// RemoveAccount refuses accounts whose data trie is not committed yet ("hash not found", observation F06b, see
				// $VF/repro). The caller's duty after a failed operation is to revert to the point before it: do that.
				racRefusedRemovals++
				if !strings.Contains(err.Error(), "not found") {
					return fmt.Sprintf("step %d %v: RemoveAccount: %v", i, o, err), r.evals, false
				}
				if err = r.adb.RevertToSnapshot(points[len(points)-1].jlen); err != nil {
					return fmt.Sprintf("step %d %v: revert after refused removal: %v", i, o, err), r.evals, false
				}
			case err == nil:
				r.ref[o.acc] = racAccount{}
			}
		case opRevert, opRevertZero:
			t := len(points) - 1 - o.arg
			if o.kind == opRevertZero {
				t = 0
				if points[0].jlen != 0 {
					return "", r.evals, true
				}
			}
			if t < 0 {
				return "", r.evals, true
			}
			if err := r.adb.RevertToSnapshot(points[t].jlen); err != nil {
				return fmt.Sprintf("step %d %v: RevertToSnapshot(%d): %v", i, o, points[t].jlen, err), r.evals, false
			}
			r.ref = points[t].ref
			root, _ := r.adb.RootHash()
			r.evals++
			if !bytes.Equal(root, points[t].root) {
				return fmt.Sprintf("step %d %v: root hash after revert %x, at the snapshot %x", i, o, root, points[t].root), r.evals, false
			}
			if jl := r.adb.JournalLen(); jl != points[t].jlen {
				return fmt.Sprintf("step %d %v: journal length after revert %d, want %d", i, o, jl, points[t].jlen), r.evals, false
			}
			points = points[:t] // the target point is re-recorded below
		case opCommit:
			if _, err := r.adb.Commit(); err != nil {
				return fmt.Sprintf("step %d commit: %v", i, err), r.evals, false
			}
			points = points[:0]
		default:
			if s := r.save(o); s != "" {
				return fmt.Sprintf("step %d %v: %s", i, o, s), r.evals, false
			}
		}
		if s := r.check(nAcc); s != "" {
			return fmt.Sprintf("step %d %v: %s", i, o, s), r.evals, false
		}
		points = append(points, point())
	}
	return "", r.evals, false
}

type racTally struct {
	histories, evals, failures int
	shown                      map[string]bool
}

func (ty *racTally) run(t *testing.T, base int, h []racOp, nAcc int) {
	fail, evals, skipped := racExecute(base, h, nAcc)
	ty.evals += evals
	if skipped {
		return
	}
	ty.histories++
	if fail == "" {
		return
	}
	ty.failures++
	// one line per distinct kind of mismatch (digits removed), shortest history first by construction of the enumeration
	sig := strings.Map(func(c rune) rune {
		if c >= '0' && c <= '9' {
			return -1
		}
		return c
	}, fail[strings.Index(fail, ":")+1:])
	if ty.shown == nil {
		ty.shown = map[string]bool{}
	}
	if !ty.shown[sig] && len(ty.shown) < 8 {
		ty.shown[sig] = true
		fmt.Printf("RAC-FAIL base=%d history=[%s] :: %s\n", base, racHistory(h), fail)
		t.Fail()
	}
}

func racEnumerate(alpha []racOp, depth int, visit func([]racOp)) {
	h := make([]racOp, 0, depth)
	var rec func()
	rec = func() {
		if len(h) > 0 {
			visit(h)
		}
		if len(h) == depth {
			return
		}
		for _, o := range alpha {
			h = append(h, o)
			rec()
			h = h[:len(h)-1]
		}
	}
	rec()
}

func racAll(t *testing.T, wantRecreation bool) {
	thorough := os.Getenv("VERIF_TIER") == "thorough"
	seed, _ := strconv.Atoi(os.Getenv("VERIF_SEED"))
	ty := &racTally{}
	depth, nRandom := 3, 1500
	if thorough {
		nRandom = 20000
	}
	// 1. exhaustive
	alpha2 := racAlphabet(2)
	for base := 0; base <= 1; base++ {
		racEnumerate(alpha2, depth, func(h []racOp) {
			// every proper prefix is enumerated on its own: only complete histories whose LAST step is new are run
			if racHasRecreation(h) == wantRecreation {
				ty.run(t, base, h, 2)
			}
		})
	}
	// 1b. depth 4 over ONE account (reduced alphabet in the standard tier)
	alpha1 := []racOp{{opTouch, 0, 0}, {opSetCode, 0, 1}, {opWrite, 0, 0}, {opDelete, 0, 0}, {opRemove, 0, 0},
		{opRevert, 0, 1}, {opRevert, 0, 2}, {opRevertZero, 0, 0}, {opCommit, 0, 0}}
	if thorough {
		alpha1 = racAlphabet(1)
	}
	for base := 0; base <= 1; base++ {
		racEnumerate(alpha1, 4, func(h []racOp) {
			if len(h) == 4 && racHasRecreation(h) == wantRecreation {
				ty.run(t, base, h, 2)
			}
		})
	}
	// 2. family: remove / save again / revert, with every pair of save operations around it (5 operations)
	var saves []racOp
	for _, o := range racAlphabet(1) {
		if o.kind <= opCombo {
			saves = append(saves, o)
		}
	}
	for base := 0; base <= 1; base++ {
		for _, s1 := range saves {
			for _, s2 := range saves {
				for _, rv := range []racOp{{opRevert, 0, 1}, {opRevert, 0, 2}, {opRevert, 0, 3}, {opRevertZero, 0, 0}} {
					for _, last := range []racOp{{opTouch, 0, 0}, {opWrite, 0, 1}, {opCommit, 0, 0}} {
						h := []racOp{s1, {opRemove, 0, 0}, s2, rv, last}
						if racHasRecreation(h) == wantRecreation {
							ty.run(t, base, h, 2)
						}
					}
				}
			}
		}
	}
	// 3. random histories over three accounts
	rng := rand.New(rand.NewSource(int64(seed) + 20260922))
	alpha3 := racAlphabet(3)
	for n := 0; n < nRandom; n++ {
		h := make([]racOp, 4+rng.Intn(5))
		for i := range h {
			h[i] = alpha3[rng.Intn(len(alpha3))]
		}
		if racHasRecreation(h) == wantRecreation {
			ty.run(t, rng.Intn(2), h, 3)
		}
	}
	fmt.Printf("RAC-EVALS %d\n", ty.evals)
	fmt.Printf("RAC-INFO histories=%d failing=%d recreation=%v depth=%d random=%d refused-removals=%d\n", ty.histories, ty.failures, wantRecreation, depth, nRandom, racRefusedRemovals)
}

func TestRAC_C06_histories_without_recreation(t *testing.T) { racAll(t, false) }

func TestRAC_C06_histories_with_recreation(t *testing.T) { racAll(t, true) }

// C07 stand-in: code assignments (new, shared, changed, cleared), removals, reverts and commits only (no storage, so no
// removal is refused and F06 cannot interfere): all histories of <= 3 operations over THREE accounts from both base states
// and all histories of 4 operations over two accounts from the base state with shared code. The leaf check in check()
// (entry exists iff referenced, NumReferences == number of referring accounts) runs after every step.
func TestRAC_C07_code_reference_counts(t *testing.T) {
	ty := &racTally{}
	alpha := func(nAcc int) []racOp {
		var ops []racOp
		for a := 0; a < nAcc; a++ {
			ops = append(ops, racOp{opSetCode, a, 0}, racOp{opSetCode, a, 1}, racOp{opSetCode, a, 2}, racOp{opRemove, a, 0})
		}
		return append(ops, racOp{opRevert, 0, 1}, racOp{opRevert, 0, 2}, racOp{opRevertZero, 0, 0}, racOp{opCommit, 0, 0})
	}
	for base := 0; base <= 1; base++ {
		racEnumerate(alpha(3), 3, func(h []racOp) { ty.run(t, base, h, 3) })
	}
	racEnumerate(alpha(2), 4, func(h []racOp) {
		if len(h) == 4 {
			ty.run(t, 1, h, 3)
		}
	})
	fmt.Printf("RAC-EVALS %d\n", ty.evals)
	fmt.Printf("RAC-INFO histories=%d failing=%d refused-removals=%d\n", ty.histories, ty.failures, racRefusedRemovals)
}
