package block

// Bounded stand-in for assumption "A" of C33 (the interface contract of marshal.Marshalizer.Marshal in
// process/block/preprocess/contracts_verif.go): the marshalizer writes exactly Size() bytes, and Size() is the closed form
// the contracts use (mbSize / entry framing / batch framing), computed here independently of the generated code.
// Bound: every miniblock with sender/receiver in {0,1,127,128,999,16383,16384,2^21,0xFFFFFFF0,0xFFFFFFFF}, the 7 declared
// types, hash counts {0,1,2,10,481,482,483}, Reserved of {0,1,200} bytes; bodies and batches of 0..3 and 200 such miniblocks.
// Prints "RAC-EVALS n"; failures print "RAC-FAIL ...".

import (
	"fmt"
	"testing"

	"github.com/ElrondNetwork/elrond-go/data/batch"
)

func racSov(x uint64) int {
	n := 1
	for x >= 128 {
		x >>= 7
		n++
	}
	return n
}

func racVfield(x uint64) int {
	if x == 0 {
		return 0
	}
	return 1 + racSov(x)
}

func racBfield(l int) int {
	if l == 0 {
		return 0
	}
	return 1 + l + racSov(uint64(l))
}

func racMbSize(m *MiniBlock) int {
	return 34*len(m.TxHashes) + racVfield(uint64(m.ReceiverShardID)) + racVfield(uint64(m.SenderShardID)) + racVfield(uint64(m.Type)) + racBfield(len(m.Reserved))
}

func TestRAC_C33_sizes(t *testing.T) {
	ids := []uint32{0, 1, 127, 128, 999, 16383, 16384, 1 << 21, 0xFFFFFFF0, 0xFFFFFFFF}
	types := []Type{TxBlock, StateBlock, PeerBlock, SmartContractResultBlock, InvalidBlock, ReceiptBlock, RewardsBlock}
	counts := []int{0, 1, 2, 10, 481, 482, 483}
	reserved := []int{0, 1, 200}
	hash := make([]byte, 32)
	evals := 0
	fail := func(f string, a ...interface{}) {
		fmt.Printf("RAC-FAIL "+f+"\n", a...)
		fmt.Printf("RAC-EVALS %d\n", evals)
		t.FailNow()
	}
	var all []*MiniBlock
	for _, r := range ids {
		for _, s := range ids {
			for _, ty := range types {
				for _, c := range counts {
					for _, rs := range reserved {
						mb := &MiniBlock{ReceiverShardID: r, SenderShardID: s, Type: ty}
						for j := 0; j < c; j++ {
							mb.TxHashes = append(mb.TxHashes, hash)
						}
						if rs > 0 {
							mb.Reserved = make([]byte, rs)
						}
						buff, err := mb.Marshal()
						if err != nil || len(buff) != mb.Size() || mb.Size() != racMbSize(mb) {
							fail("miniblock r=%d s=%d type=%d txs=%d reserved=%d: len(Marshal)=%d Size=%d closed form=%d err=%v", r, s, ty, c, rs, len(buff), mb.Size(), racMbSize(mb), err)
						}
						if rs == 0 {
							over := mb.Size() - 34*c
							if over < 0 || over > 15 {
								fail("header overhead %d outside 0..15", over)
							}
						}
						evals++
						if (evals % 97) == 0 {
							all = append(all, mb)
						}
					}
				}
			}
		}
	}
	for _, n := range []int{0, 1, 2, 3, 200} {
		for start := 0; start+n <= len(all) && start < 40; start++ {
			body := &Body{MiniBlocks: all[start : start+n]}
			b := &batch.Batch{}
			want := 0
			for _, mb := range body.MiniBlocks {
				sz := racMbSize(mb)
				want += 1 + sz + racSov(uint64(sz))
				buff, _ := mb.Marshal()
				b.Data = append(b.Data, buff)
			}
			buff, err := body.Marshal()
			if err != nil || len(buff) != body.Size() || body.Size() != want {
				fail("body of %d miniblocks: len(Marshal)=%d Size=%d closed form=%d err=%v", n, len(buff), body.Size(), want, err)
			}
			bb, err := b.Marshal()
			if err != nil || len(bb) != b.Size() || b.Size() != want {
				fail("batch of %d marshalled miniblocks: len(Marshal)=%d Size=%d closed form=%d err=%v", n, len(bb), b.Size(), want, err)
			}
			evals++
		}
	}
	fmt.Printf("RAC-EVALS %d\n", evals)
}
