package sharding

// Bounded stand-in for the top-level claim of C16 (EpochStartPrepare -> computeNodesConfigFromList -> UpdateNodeLists ->
// setNodesPerShards -> fillPublicKeyToValidatorMap is out of the deductive check's reach: channels, sort with closures, string-keyed index
// map, map ranges without exhaustion).
// Claim checked, for 3 consecutive epoch changes of a real indexHashedNodesCoordinator: when the validator info of the epoch-start body is
// consistent with the previous epoch (eligible/waiting validators listed in their shard and list; leaving validators listed with the shard
// that holds them; new validators not known before), then in the configuration of the new epoch
//   (a) every public key appears at most once over all shards of the eligible and waiting maps together,
//   (b) nobody is lost or invented: keys(eligible') + keys(waiting') + keys(leaving') == keys(eligible) + keys(waiting) + keys(new),
//   (c) GetValidatorWithPublicKey(key) reports, for every key of the new epoch, the shard whose eligible or waiting list holds it.
// Bound: 1..2 shards + metachain, 2..5 eligible and 0..3 waiting validators per shard at genesis, per epoch 0..2 leaving (unstake) validators
// per shard chosen among eligible and waiting, 0..3 new validators, some inactive/jailed entries, both distributors, the body lists the
// validator info in a pseudo-random order. Prints "RAC-EVALS n"; any failure prints "RAC-FAIL ...".

import (
	"fmt"
	"math/rand"
	"os"
	"sort"
	"testing"

	logger "github.com/ElrondNetwork/elrond-go-logger"
	"github.com/ElrondNetwork/elrond-go/core"
	"github.com/ElrondNetwork/elrond-go/data/block"
	"github.com/ElrondNetwork/elrond-go/data/state"
)

func rac16Key(id int) []byte { return []byte(fmt.Sprintf("pk-%05d", id)) }

func rac16Keys(maps ...map[uint32][]Validator) []string {
	var keys []string
	for _, m := range maps {
		for _, l := range m {
			for _, v := range l {
				keys = append(keys, string(v.PubKey()))
			}
		}
	}
	sort.Strings(keys)
	return keys
}

func TestRAC_C16_one_place(t *testing.T) {
	_ = logger.SetLogLevel("*:NONE")
	cases := 8000
	if os.Getenv("VERIF_TIER") == "thorough" {
		cases = 80000
	}
	rnd := rand.New(rand.NewSource(16))
	evals := 0
	fail := func(format string, a ...interface{}) {
		fmt.Printf("RAC-FAIL C16 "+format+"\n", a...)
		t.Fail()
	}
	for c := 0; c < cases; c++ {
		nbShards := uint32(1 + rnd.Intn(2))
		shardIds := []uint32{core.MetachainShardId}
		for s := uint32(0); s < nbShards; s++ {
			shardIds = append(shardIds, s)
		}
		next := 0
		eligible := map[uint32][]Validator{}
		waiting := map[uint32][]Validator{}
		for _, s := range shardIds {
			for i := 2 + rnd.Intn(4); i > 0; i-- {
				v, _ := NewValidator(rac16Key(next), 1, uint32(next))
				eligible[s] = append(eligible[s], v)
				next++
			}
			waiting[s] = make([]Validator, 0)
			for i := rnd.Intn(4); i > 0; i-- {
				v, _ := NewValidator(rac16Key(next), 1, uint32(next))
				waiting[s] = append(waiting[s], v)
				next++
			}
		}
		arguments := createArguments()
		shuffler, _ := NewHashValidatorsShuffler(&NodesShufflerArgs{
			NodesShard: 2, NodesMeta: 2, Hysteresis: 0.2, Adaptivity: false, ShuffleBetweenShards: rnd.Intn(2) == 0,
		})
		arguments.Shuffler = shuffler
		arguments.NbShards = nbShards
		arguments.EligibleNodes = eligible
		arguments.WaitingNodes = waiting
		arguments.ShardConsensusGroupSize = 1
		arguments.MetaConsensusGroupSize = 1
		ihgs, err := NewIndexHashedNodesCoordinator(arguments)
		if err != nil {
			fail("case %d: cannot create the coordinator: %v", c, err)
			return
		}
		for epoch := uint32(1); epoch <= 3; epoch++ {
			prev := ihgs.nodesConfig[ihgs.currentEpoch]
			var infos []*state.ShardValidatorInfo
			expected := map[string]bool{}
			for _, part := range []struct {
				m    map[uint32][]Validator
				list string
			}{{prev.eligibleMap, string(core.EligibleList)}, {prev.waitingMap, string(core.WaitingList)}} {
				for _, s := range shardIds {
					leavingHere := rnd.Intn(3)
					for idx, v := range part.m[s] {
						list := part.list
						if leavingHere > 0 && rnd.Intn(3) == 0 {
							list = string(core.LeavingList) // consistent: listed with the shard that holds it
							leavingHere--
						}
						infos = append(infos, &state.ShardValidatorInfo{PublicKey: v.PubKey(), ShardId: s, List: list, Index: uint32(idx), TempRating: 10})
						expected[string(v.PubKey())] = true
					}
				}
			}
			for i := rnd.Intn(4); i > 0; i-- {
				infos = append(infos, &state.ShardValidatorInfo{PublicKey: rac16Key(next), ShardId: shardIds[rnd.Intn(len(shardIds))], List: string(core.NewList), Index: uint32(next), TempRating: 10})
				expected[string(rac16Key(next))] = true
				next++
			}
			for i := rnd.Intn(3); i > 0; i-- { // inactive and jailed entries take no place
				list := string(core.InactiveList)
				if rnd.Intn(2) == 0 {
					list = string(core.JailedList)
				}
				infos = append(infos, &state.ShardValidatorInfo{PublicKey: rac16Key(next), ShardId: shardIds[rnd.Intn(len(shardIds))], List: list, Index: uint32(next), TempRating: 10})
				next++
			}
			rnd.Shuffle(len(infos), func(i, j int) { infos[i], infos[j] = infos[j], infos[i] })
			miniBlock := &block.MiniBlock{Type: block.PeerBlock}
			for _, info := range infos {
				marshaled, _ := ihgs.marshalizer.Marshal(info)
				miniBlock.TxHashes = append(miniBlock.TxHashes, marshaled)
			}
			body := &block.Body{MiniBlocks: []*block.MiniBlock{miniBlock}}
			header := &block.MetaBlock{
				PrevRandSeed: []byte(fmt.Sprintf("rand-%d-%d", c, epoch)),
				EpochStart:   block.EpochStart{LastFinalizedHeaders: []block.EpochStartShardData{{}}},
				Epoch:        epoch,
			}
			ihgs.EpochStartPrepare(header, body)
			evals++
			cfg := ihgs.nodesConfig[epoch]
			if cfg == nil {
				fail("case %d epoch %d: no configuration was stored for the new epoch", c, epoch)
				return
			}
			// (a) at most one place
			place := map[string]uint32{}
			for _, m := range []map[uint32][]Validator{cfg.eligibleMap, cfg.waitingMap} {
				for s, l := range m {
					for _, v := range l {
						k := string(v.PubKey())
						if old, dup := place[k]; dup {
							fail("case %d epoch %d: key %s appears twice (shards %d and %d)", c, epoch, k, old, s)
							return
						}
						place[k] = s
					}
				}
			}
			// (b) nobody lost, nobody invented
			var want []string
			for k := range expected {
				want = append(want, k)
			}
			sort.Strings(want)
			got := rac16Keys(cfg.eligibleMap, cfg.waitingMap, cfg.leavingMap)
			if fmt.Sprint(got) != fmt.Sprint(want) {
				fail("case %d epoch %d: validators of the new epoch (eligible+waiting+leaving) differ from eligible+waiting+new of the input\n  want %v\n  got  %v", c, epoch, want, got)
				return
			}
			// (c) lookup by public key reports that shard
			for k, s := range place {
				v, shard, errGet := ihgs.GetValidatorWithPublicKey([]byte(k))
				if errGet != nil || v == nil || string(v.PubKey()) != k || shard != s {
					fail("case %d epoch %d: lookup of %s reports shard %d (err %v), the new configuration holds it in shard %d", c, epoch, k, shard, errGet, s)
					return
				}
			}
			ihgs.EpochStartAction(header)
		}
	}
	fmt.Printf("RAC-EVALS %d\n", evals)
}
