package pubkeyConverter

// Bounded stand-in for the trusted library model of C48 (core/pubkeyConverter/contracts_verif.go): the axioms about
// to5/to8/all5 (bech32.ConvertBits), benc/bdecOK/bdecHrp/bdecData (bech32.Encode/Decode) and hexenc/hexdec/hexOK
// (encoding/hex) are compared with the real libraries on enumerated and random inputs. Prints RAC-EVALS / RAC-FAIL.

import (
	"bytes"
	"encoding/hex"
	"fmt"
	"math/rand"
	"os"
	"strconv"
	"strings"
	"testing"

	"github.com/btcsuite/btcutil/bech32"
)

func c48inputs(t *testing.T) [][]byte {
	seed, _ := strconv.Atoi(os.Getenv("VERIF_SEED"))
	rnd := rand.New(rand.NewSource(int64(seed) + 48))
	n := 20000
	if os.Getenv("VERIF_TIER") == "thorough" {
		n = 200000
	}
	var in [][]byte
	in = append(in, []byte{})
	for a := 0; a < 256; a++ { // all 1-byte strings, all 2-byte strings
		in = append(in, []byte{byte(a)})
		for b := 0; b < 256; b++ {
			in = append(in, []byte{byte(a), byte(b)})
		}
	}
	for l := 0; l <= 70; l++ { // extreme contents of every length 0..70
		in = append(in, bytes.Repeat([]byte{0}, l), bytes.Repeat([]byte{0xff}, l), bytes.Repeat([]byte{0xa5}, l))
	}
	for i := 0; i < n; i++ {
		b := make([]byte, rnd.Intn(71))
		rnd.Read(b)
		in = append(in, b)
	}
	return in
}

func TestRAC_C48_LibraryModel(t *testing.T) {
	evals := 0
	fail := func(format string, a ...interface{}) {
		fmt.Printf("RAC-FAIL C48 library model: "+format+"\n", a...)
		t.FailNow()
	}
	for _, b := range c48inputs(t) {
		evals++
		// to5: total, length (8n+4)/5, every group < 32; to8(to5(s)) == s
		d, err := bech32.ConvertBits(b, 8, 5, true)
		if err != nil || len(d) != (8*len(b)+4)/5 {
			fail("to5 of %x: err %v len %d", b, err, len(d))
		}
		for _, g := range d {
			if g >= 32 {
				fail("to5 of %x has group %d", b, g)
			}
		}
		back, err := bech32.ConvertBits(d, 5, 8, false)
		if err != nil || !bytes.Equal(back, b) {
			fail("to8(to5(%x)) = %x, %v", b, back, err)
		}
		// benc: Encode total on 5-bit groups, length, decode-of-encode up to 90 characters, refused above
		s, err := bech32.Encode("erd", d)
		if err != nil || len(s) != 3+7+len(d) {
			fail("benc of %x: %q %v", d, s, err)
		}
		hrp, dd, err := bech32.Decode(s)
		if len(s) <= 90 {
			if err != nil || hrp != "erd" || !bytes.Equal(dd, d) {
				fail("decode of encode %q: %q %x %v", s, hrp, dd, err)
			}
			// Decode is a function of the text up to letter case (F47): the upper-case text gives the same result
			h2, d2, err2 := bech32.Decode(strings.ToUpper(s))
			if err2 != nil || h2 != hrp || !bytes.Equal(d2, dd) {
				fail("decode of upper-case %q differs", s)
			}
		} else if err == nil {
			fail("text of %d characters accepted", len(s))
		}
		// a single corrupted character is refused (checksum)
		if len(s) <= 90 && len(s) > 8 {
			c := []byte(s)
			i := 4 + evals%(len(c)-4)
			if c[i] == 'q' {
				c[i] = 'p'
			} else {
				c[i] = 'q'
			}
			if _, _, err := bech32.Decode(string(c)); err == nil {
				fail("corrupted text %q accepted", c)
			}
		}
		// hex
		h := hex.EncodeToString(b)
		hb, err := hex.DecodeString(h)
		if len(h) != 2*len(b) || err != nil || !bytes.Equal(hb, b) {
			fail("hex round trip of %x", b)
		}
	}
	// Encode refuses groups >= 32 and only those (all5)
	for g := 0; g < 256; g++ {
		evals++
		_, err := bech32.Encode("erd", []byte{1, byte(g), 2})
		if (err == nil) != (g < 32) {
			fail("Encode of group %d: %v", g, err)
		}
	}
	// bdecOK(s) ==> 8 <= len(s) <= 90
	for l := 0; l < 8; l++ {
		evals++
		if _, _, err := bech32.Decode(strings.Repeat("q", l)); err == nil {
			fail("text of %d characters accepted", l)
		}
	}
	fmt.Printf("RAC-EVALS %d\n", evals)
}
