package sharding

// Bounded stand-in for the part of C15 that the deductive check cannot reach:
//   - SelectionBasedProvider.Get / selectorExpandedList.Select end to end (Get is outside govc's subset: defers after early returns)
//   - the facts that need "size == sum of the stored runs" (no sums over mutable heap in the contract language):
//     adjustIndex(x) < len(list) for x < len(list)-size, never an error for sampleSize <= uniqueItems
//   - add(): the run it stores overlaps no stored run (offset-indexed quantifier instances, solver limitation)
// Bound: all weight vectors of 1..5 items with weights in 1..3 (and 6 items with weights 1..2), every sample size, seeds per case below.
// Prints "RAC-EVALS n"; any failure prints "RAC-FAIL ...".

import (
	"crypto/sha256"
	"encoding/binary"
	"fmt"
	"os"
	"testing"
)

type racHasher struct{}

func (racHasher) Compute(s string) []byte { h := sha256.Sum256([]byte(s)); return h[:] }
func (racHasher) Size() int               { return 32 }
func (racHasher) IsInterfaceNil() bool    { return false }

// reference semantics: really remove every copy of the chosen item from the expanded list
func racReslicing(h racHasher, randomness []byte, num int, list []uint32) []uint32 {
	cur := append([]uint32{}, list...)
	var out []uint32
	for i := 0; i < num; i++ {
		buf := make([]byte, 8)
		binary.BigEndian.PutUint64(buf, uint64(i))
		r := binary.BigEndian.Uint64(h.Compute(string(buf) + string(randomness)))
		idx := r % uint64(len(cur))
		v := cur[idx]
		out = append(out, v)
		var next []uint32
		for _, x := range cur {
			if x != v {
				next = append(next, x)
			}
		}
		cur = next
	}
	return out
}

func racCheckProvider(sbp *SelectionBasedProvider, list []uint32) string {
	sum := int64(0)
	for k, e := range sbp.sortedSlice {
		if e == nil || e.startIndex < 0 || e.numAppearances < 1 || e.startIndex+e.numAppearances > int64(len(list)) {
			return fmt.Sprintf("invalid run %d", k)
		}
		if k > 0 && sbp.sortedSlice[k-1].startIndex+sbp.sortedSlice[k-1].numAppearances > e.startIndex {
			return fmt.Sprintf("runs %d,%d overlap or unsorted", k-1, k)
		}
		for x := e.startIndex; x < e.startIndex+e.numAppearances; x++ {
			if list[x] != list[e.startIndex] {
				return fmt.Sprintf("run %d not one value", k)
			}
		}
		if e.startIndex > 0 && list[e.startIndex-1] == list[e.startIndex] {
			return fmt.Sprintf("run %d not maximal (left)", k)
		}
		if end := e.startIndex + e.numAppearances; end < int64(len(list)) && list[end] == list[e.startIndex] {
			return fmt.Sprintf("run %d not maximal (right)", k)
		}
		sum += e.numAppearances
	}
	if sum != sbp.size {
		return fmt.Sprintf("size %d != sum of runs %d", sbp.size, sum)
	}
	return ""
}

func TestRAC_C15_selection(t *testing.T) {
	seeds := 40
	if os.Getenv("VERIF_TIER") == "thorough" {
		seeds = 400
	}
	evals := 0
	fail := func(format string, a ...interface{}) {
		fmt.Printf("RAC-FAIL C15 "+format+"\n", a...)
		t.Fail()
	}
	h := racHasher{}
	var weights [][]uint32
	var gen func(cur []uint32, n int, maxW uint32)
	gen = func(cur []uint32, n int, maxW uint32) {
		if len(cur) == n {
			weights = append(weights, append([]uint32{}, cur...))
			return
		}
		for w := uint32(1); w <= maxW; w++ {
			gen(append(cur, w), n, maxW)
		}
	}
	for n := 1; n <= 5; n++ {
		gen(nil, n, 3)
	}
	gen(nil, 6, 2)

	for _, w := range weights {
		sel, err := NewSelectorExpandedList(w, h)
		if err != nil {
			fail("weights %v: %v", w, err)
			return
		}
		list := sel.expandedList
		// expandList: item i occupies exactly the positions [sum(w[:i]), sum(w[:i+1]))
		pos := 0
		for i, wi := range w {
			for j := uint32(0); j < wi; j++ {
				if pos >= len(list) || list[pos] != uint32(i) {
					fail("weights %v: expanded list %v", w, list)
					return
				}
				pos++
			}
		}
		if pos != len(list) {
			fail("weights %v: expanded list too long %v", w, list)
			return
		}
		for size := 1; size <= len(w); size++ {
			for s := 0; s < seeds; s++ {
				rnd := []byte(fmt.Sprintf("seed-%d-%d", s, size))
				evals++
				got, err := sel.Select(rnd, uint32(size))
				if err != nil {
					fail("weights %v size %d seed %d: error %v", w, size, s, err)
					return
				}
				if len(got) != size {
					fail("weights %v size %d seed %d: group size %d", w, size, s, len(got))
					return
				}
				seen := map[uint32]bool{}
				for _, v := range got {
					if int(v) >= len(w) || seen[v] {
						fail("weights %v size %d seed %d: group %v not distinct members", w, size, s, got)
						return
					}
					seen[v] = true
				}
				again, _ := sel.Select(rnd, uint32(size))
				ref := racReslicing(h, rnd, size, list)
				for i := range got {
					if again[i] != got[i] || ref[i] != got[i] {
						fail("weights %v size %d seed %d: %v, second call %v, reslicing %v", w, size, s, got, again, ref)
						return
					}
				}
				// the loop of Get, step by step, with the invariants the contracts talk about
				sbp := NewSelectionBasedProvider(h, uint32(len(w)))
				L := int64(len(list))
				for i := 0; i < size; i++ {
					r := sbp.computeRandomnessAsUint64(rnd, i)
					if sbp.size >= L {
						fail("weights %v size %d seed %d step %d: size %d >= %d", w, size, s, i, sbp.size, L)
						return
					}
					x := r % uint64(L-sbp.size)
					idx := sbp.adjustIndex(x)
					if idx < x || idx >= uint64(L) {
						fail("weights %v size %d seed %d step %d: adjustIndex(%d) = %d outside the list", w, size, s, i, x, idx)
						return
					}
					for k, e := range sbp.sortedSlice {
						if int64(idx) >= e.startIndex && int64(idx) < e.startIndex+e.numAppearances {
							fail("weights %v size %d seed %d step %d: adjusted index %d inside run %d", w, size, s, i, idx, k)
							return
						}
					}
					if list[idx] != got[i] {
						fail("weights %v size %d seed %d step %d: replayed member differs", w, size, s, i)
						return
					}
					sbp.add(list, int64(idx))
					if m := racCheckProvider(sbp, list); m != "" {
						fail("weights %v size %d seed %d step %d: after add: %s", w, size, s, i, m)
						return
					}
				}
			}
		}
	}
	fmt.Printf("RAC-EVALS %d\n", evals)
}
