package core

// Bounded stand-in for the trusted text model of C36 (core/contracts_verif.go): strconv.FormatFloat(p,'f',-1,64) for p in
// [0,1], strings.Split(s,"."), strings.Repeat("0",n) and (*big.Int).SetString are compared with the axioms, and
// GetIntTrimmedPercentageOfValue with exact rational arithmetic on the decimal text. Prints RAC-EVALS / RAC-FAIL.

import (
	"fmt"
	"math"
	"math/big"
	"math/rand"
	"os"
	"strconv"
	"strings"
	"testing"
)

func TestRAC_C36_TextModelAndTrimmedPercentage(t *testing.T) {
	seed, _ := strconv.Atoi(os.Getenv("VERIF_SEED"))
	rnd := rand.New(rand.NewSource(int64(seed) + 36))
	var ps []float64
	for b := 1; b <= 400; b++ { // all fractions a/b, b <= 400
		for a := 0; a <= b; a++ {
			ps = append(ps, float64(a)/float64(b))
		}
	}
	for a := 0; a <= 10000; a++ { // service fees: a / 10000
		ps = append(ps, float64(a)/float64(10000))
	}
	n := 10000
	if os.Getenv("VERIF_TIER") == "thorough" {
		n = 200000
	}
	for i := 0; i < n; i++ {
		ps = append(ps, rnd.Float64(), math.Float64frombits(rnd.Uint64()%0x3ff0000000000001)) // uniform, and uniform in bit pattern (subnormals, tiny values)
	}
	ps = append(ps, 0, 1, math.SmallestNonzeroFloat64, math.Nextafter(1, 0), math.Nextafter(0, 1), 1e-7, 1e-21, 0.1, 0.3, 1.0/3.0)
	two200 := new(big.Int).Lsh(big.NewInt(1), 200)
	ten18 := new(big.Int).Exp(big.NewInt(10), big.NewInt(18), nil)
	values := []*big.Int{big.NewInt(0), big.NewInt(1), big.NewInt(7), big.NewInt(9999), ten18, two200, new(big.Int).Sub(two200, big.NewInt(1))}
	evals := 0
	fail := func(format string, a ...interface{}) {
		fmt.Printf("RAC-FAIL C36 text model: "+format+"\n", a...)
		t.FailNow()
	}
	for _, p := range ps {
		if !(p >= 0 && p <= 1) {
			continue
		}
		s := strconv.FormatFloat(p, 'f', -1, 64)
		parts := strings.Split(s, ".")
		dots := strings.Count(s, ".")
		if dots > 1 || len(parts) != dots+1 {
			fail("%v -> %q: dots", p, s)
		}
		ip, fp := s, ""
		if dots == 1 {
			ip, fp = parts[0], parts[1]
			if ip+"."+fp != s {
				fail("%q split", s)
			}
		}
		num, ok := new(big.Int).SetString(ip+fp, 10)
		den, ok2 := new(big.Int).SetString("1"+strings.Repeat("0", len(fp)), 10)
		if !ok || !ok2 || den.Cmp(new(big.Int).Exp(big.NewInt(10), big.NewInt(int64(len(fp))), nil)) != 0 {
			fail("%q: not numbers", s)
		}
		if num.Sign() < 0 || num.Cmp(den) > 0 {
			fail("%q: reading %v/%v outside [0,1]", s, num, den)
		}
		// the decimal text reads back as p
		if back, err := strconv.ParseFloat(s, 64); err != nil || back != p {
			fail("%q does not read back as %v", s, p)
		}
		e, f := splitExponentFraction(s)
		if e != ip || f != fp {
			fail("splitExponentFraction(%q) = %q %q", s, e, f)
		}
		for _, v := range values {
			evals++
			before := new(big.Int).Set(v)
			r := GetIntTrimmedPercentageOfValue(v, p)
			want := new(big.Int).Mul(v, num)
			want.Quo(want, den)
			if v.Cmp(before) != 0 || r == v {
				fail("input modified for %v %v", v, p)
			}
			if r.Cmp(want) != 0 || r.Sign() < 0 || r.Cmp(v) > 0 {
				fail("GetIntTrimmedPercentageOfValue(%v, %v) = %v, want %v", v, p, r, want)
			}
		}
	}
	fmt.Printf("RAC-EVALS %d\n", evals)
}
