package main

// core/atomic.Counter / Uint64 / Uint32 / Int64: one-field cells accessed through interior pointers; each method is one
// sequentially consistent atomic step on the `.value` field (exact machine arithmetic).

import (
	"go/token"
	"go/types"

	"golang.org/x/tools/go/ssa"
)

func init() {
	pending = append(pending, func() {
		cellType := func(c *ssa.CallCommon) (types.Type, int, bool) {
			t := c.Args[0].Type().Underlying().(*types.Pointer).Elem().Underlying().(*types.Struct).Field(0).Type()
			b, s, _ := intInfo(t)
			return t, b, s
		}
		get := func(fv *FnVerifier, c *ssa.CallCommon, args []Val, st *State, name string) string {
			a := fv.flagValueAddr(args[0], c.Args[0].Type())
			t, _, _ := cellType(c)
			v := fv.q.bind(name+".cell", fv.sortOf(t), fv.loadAddr(st, a))
			fv.q.assume(fv.wf(v, t, st))
			return v
		}
		set := func(fv *FnVerifier, c *ssa.CallCommon, args []Val, st *State, pos token.Pos, v string) {
			a := fv.flagValueAddr(args[0], c.Args[0].Type())
			fv.frameCheck(st, a, pos)
			fv.storeAddr(st, a, v)
		}
		note := func(fv *FnVerifier) {
			fv.note("model: core/atomic cells (Counter/Uint64/Uint32/Int64): each method is one atomic read or update of the value field")
		}
		addModel := func(typeName, method string, f func(fv *FnVerifier, c *ssa.CallCommon, args []Val, st *State, pos token.Pos, name string) Val) {
			models["(*"+atomicPkg+"."+typeName+")."+method] = model{apply: f, writes: func(fv *FnVerifier) []string { return []string{"*all"} }}
		}
		for _, tn := range []string{"Counter", "Uint64", "Uint32", "Int64"} {
			addModel(tn, "Get", func(fv *FnVerifier, c *ssa.CallCommon, args []Val, st *State, pos token.Pos, name string) Val {
				note(fv)
				t, _, _ := cellType(c)
				return Val{T: t, S: get(fv, c, args, st, name)}
			})
			models["(*"+atomicPkg+"."+tn+").Get"] = model{apply: models["(*"+atomicPkg+"."+tn+").Get"].apply, writes: noWrites}
			addModel(tn, "Set", func(fv *FnVerifier, c *ssa.CallCommon, args []Val, st *State, pos token.Pos, name string) Val {
				note(fv)
				set(fv, c, args, st, pos, args[1].S)
				return Val{}
			})
		}
		arith := func(op string, operand func(fv *FnVerifier, args []Val, bits int) string) func(fv *FnVerifier, c *ssa.CallCommon, args []Val, st *State, pos token.Pos, name string) Val {
			return func(fv *FnVerifier, c *ssa.CallCommon, args []Val, st *State, pos token.Pos, name string) Val {
				note(fv)
				t, b, s := cellType(c)
				old := get(fv, c, args, st, name)
				res, _, _, err := fv.mode.arith(op, old, operand(fv, args, b), b, s)
				if err != nil {
					unsupported("%v", err)
				}
				nv := fv.q.bind(name, fv.sortOf(t), res)
				set(fv, c, args, st, pos, nv)
				return Val{T: t, S: nv}
			}
		}
		one := func(fv *FnVerifier, args []Val, bits int) string { return fv.mode.litI(1, bits) }
		arg1 := func(fv *FnVerifier, args []Val, bits int) string { return args[1].S }
		addModel("Counter", "Increment", arith("+", one))
		addModel("Counter", "Decrement", arith("-", one))
		addModel("Counter", "Add", arith("+", arg1))
		addModel("Counter", "Subtract", arith("-", arg1))
		addModel("Counter", "Reset", func(fv *FnVerifier, c *ssa.CallCommon, args []Val, st *State, pos token.Pos, name string) Val {
			note(fv)
			t, b, _ := cellType(c)
			old := get(fv, c, args, st, name)
			set(fv, c, args, st, pos, fv.mode.litI(0, b))
			return Val{T: t, S: old}
		})
		addModel("Counter", "GetUint64", func(fv *FnVerifier, c *ssa.CallCommon, args []Val, st *State, pos token.Pos, name string) Val {
			note(fv)
			old := get(fv, c, args, st, name)
			m := fv.mode
			zero := m.litI(0, 64)
			return Val{T: types.Typ[types.Uint64], S: "(ite " + m.cmp("<", old, zero, true) + " " + zero + " " + old + ")"}
		})
		models["(*"+atomicPkg+".Counter).GetUint64"] = model{apply: models["(*"+atomicPkg+".Counter).GetUint64"].apply, writes: noWrites}
	})
}
