package main

// SMT-LIB generation helpers, integer modes, solver portfolio.

import (
	"bytes"
	"context"
	"fmt"
	"go/types"
	"math/big"
	"os"
	"os/exec"
	"path/filepath"
	"strings"
	"sync"
	"time"
)

// Mode selects the integer model of one verification unit (function / lemma).
//   int: Go integers are SMT Int, every operation reduced exactly modulo 2^n (machine arithmetic, not mathematical)
//   bv : Go integers are bit-vectors of their width
type Mode struct{ BV bool }

func (m Mode) String() string {
	if m.BV {
		return "bv"
	}
	return "int"
}

func pow2(n int) *big.Int { return new(big.Int).Lsh(big.NewInt(1), uint(n)) }

func intInfo(t types.Type) (bits int, signed bool, ok bool) {
	b, isB := t.Underlying().(*types.Basic)
	if !isB {
		return 0, false, false
	}
	switch b.Kind() {
	case types.Int8:
		return 8, true, true
	case types.Int16:
		return 16, true, true
	case types.Int32:
		return 32, true, true
	case types.Int64, types.Int, types.UntypedInt, types.UntypedRune:
		return 64, true, true
	case types.Uint8:
		return 8, false, true
	case types.Uint16:
		return 16, false, true
	case types.Uint32:
		return 32, false, true
	case types.Uint64, types.Uint, types.Uintptr:
		return 64, false, true
	}
	return 0, false, false
}

func isFloat(t types.Type) (bits int, ok bool) {
	b, isB := t.Underlying().(*types.Basic)
	if !isB {
		return 0, false
	}
	switch b.Kind() {
	case types.Float64, types.UntypedFloat:
		return 64, true
	case types.Float32:
		return 32, true
	}
	return 0, false
}

func fpSort(bits int) string {
	if bits == 32 {
		return "(_ FloatingPoint 8 24)"
	}
	return "(_ FloatingPoint 11 53)"
}

// idxSort is the sort of len/cap/indices.
func (m Mode) idxSort() string {
	if m.BV {
		return "(_ BitVec 64)"
	}
	return "Int"
}

func (m Mode) intSort(bits int) string {
	if m.BV {
		return fmt.Sprintf("(_ BitVec %d)", bits)
	}
	return "Int"
}

// lit renders integer constant v of the given width.
func (m Mode) lit(v *big.Int, bits int) string {
	if m.BV {
		x := new(big.Int).Mod(v, pow2(bits))
		return fmt.Sprintf("(_ bv%s %d)", x.String(), bits)
	}
	if v.Sign() < 0 {
		return "(- " + new(big.Int).Neg(v).String() + ")"
	}
	return v.String()
}

func (m Mode) litI(v int64, bits int) string { return m.lit(big.NewInt(v), bits) }
func (m Mode) idx(v int64) string            { return m.litI(v, 64) }

func (m Mode) rangeAssume(x string, bits int, signed bool) string {
	if m.BV {
		return "true"
	}
	if signed {
		lo := new(big.Int).Neg(pow2(bits - 1))
		hi := new(big.Int).Sub(pow2(bits-1), big.NewInt(1))
		return fmt.Sprintf("(and (<= %s %s) (<= %s %s))", m.lit(lo, bits), x, x, hi.String())
	}
	return fmt.Sprintf("(and (<= 0 %s) (< %s %s))", x, x, pow2(bits).String())
}

// wrap reduces a mathematical result into the type's range (int mode only).
func (m Mode) wrap(x string, bits int, signed bool) string {
	if m.BV {
		return x
	}
	if signed {
		return fmt.Sprintf("(- (mod (+ %s %s) %s) %s)", x, pow2(bits-1), pow2(bits), pow2(bits-1))
	}
	return fmt.Sprintf("(mod %s %s)", x, pow2(bits))
}

// wrap1 is for results known to be off by at most one modulus (add/sub).
func (m Mode) wrap1(x string, bits int, signed bool) string {
	if m.BV {
		return x
	}
	M := pow2(bits).String()
	if signed {
		hi := new(big.Int).Sub(pow2(bits-1), big.NewInt(1)).String()
		lo := "(- " + pow2(bits-1).String() + ")"
		return fmt.Sprintf("(let ((wv %s)) (ite (> wv %s) (- wv %s) (ite (< wv %s) (+ wv %s) wv)))", x, hi, M, lo, M)
	}
	return fmt.Sprintf("(let ((wv %s)) (ite (>= wv %s) (- wv %s) (ite (< wv 0) (+ wv %s) wv)))", x, M, M, M)
}

func (m Mode) inRange(x string, bits int, signed bool) string {
	if signed {
		lo := "(- " + pow2(bits-1).String() + ")"
		hi := new(big.Int).Sub(pow2(bits-1), big.NewInt(1)).String()
		return fmt.Sprintf("(and (<= %s %s) (<= %s %s))", lo, x, x, hi)
	}
	return fmt.Sprintf("(and (<= 0 %s) (< %s %s))", x, x, pow2(bits))
}

// arith returns (result, mathematical-result-or-"" for overflow check, extra facts).
func (m Mode) arith(op string, a, b string, bits int, signed bool) (res string, exact string, facts []string, err error) {
	if m.BV {
		switch op {
		case "+":
			return "(bvadd " + a + " " + b + ")", "", nil, nil
		case "-":
			return "(bvsub " + a + " " + b + ")", "", nil, nil
		case "*":
			return "(bvmul " + a + " " + b + ")", "", nil, nil
		case "/":
			if signed {
				return "(bvsdiv " + a + " " + b + ")", "", nil, nil
			}
			return "(bvudiv " + a + " " + b + ")", "", nil, nil
		case "%":
			if signed {
				return "(bvsrem " + a + " " + b + ")", "", nil, nil
			}
			return "(bvurem " + a + " " + b + ")", "", nil, nil
		case "&":
			return "(bvand " + a + " " + b + ")", "", nil, nil
		case "|":
			return "(bvor " + a + " " + b + ")", "", nil, nil
		case "^":
			return "(bvxor " + a + " " + b + ")", "", nil, nil
		case "&^":
			return "(bvand " + a + " (bvnot " + b + "))", "", nil, nil
		}
		return "", "", nil, fmt.Errorf("bv op %s", op)
	}
	switch op {
	case "+":
		e := "(+ " + a + " " + b + ")"
		return m.wrap1(e, bits, signed), e, nil, nil
	case "-":
		e := "(- " + a + " " + b + ")"
		return m.wrap1(e, bits, signed), e, nil, nil
	case "*":
		e := "(* " + a + " " + b + ")"
		return m.wrap(e, bits, signed), e, nil, nil
	case "/":
		if signed {
			return m.wrap("(tdiv "+a+" "+b+")", bits, signed), "", nil, nil
		}
		return "(div " + a + " " + b + ")", "", nil, nil
	case "%":
		if signed {
			return "(trem " + a + " " + b + ")", "", nil, nil
		}
		return "(mod " + a + " " + b + ")", "", nil, nil
	case "&", "|", "^", "&^":
		// constant masks are handled by the caller; general case: uninterpreted with sound bounds (unsigned only)
		f := map[string]string{"&": "bitand", "|": "bitor", "^": "bitxor", "&^": "bitandnot"}[op]
		r := fmt.Sprintf("(%s%d %s %s)", f, bits, a, b)
		if !signed {
			switch op {
			case "&":
				facts = append(facts, fmt.Sprintf("(and (<= 0 %s) (<= %s %s) (<= %s %s))", r, r, a, r, b))
			case "|":
				facts = append(facts, fmt.Sprintf("(and (>= %s %s) (>= %s %s) (<= %s (+ %s %s)) (< %s %s))", r, a, r, b, r, a, b, r, pow2(bits)))
			case "^":
				facts = append(facts, fmt.Sprintf("(and (<= 0 %s) (<= %s (+ %s %s)) (< %s %s))", r, r, a, b, r, pow2(bits)))
			case "&^":
				facts = append(facts, fmt.Sprintf("(and (<= 0 %s) (<= %s %s))", r, r, a))
			}
		} else {
			facts = append(facts, m.inRange(r, bits, signed))
		}
		return r, "", facts, nil
	}
	return "", "", nil, fmt.Errorf("int op %s", op)
}

func (m Mode) cmp(op string, a, b string, signed bool) string {
	if op == "==" {
		return "(= " + a + " " + b + ")"
	}
	if op == "!=" {
		return "(not (= " + a + " " + b + "))"
	}
	if m.BV {
		var f string
		switch op {
		case "<":
			f = "bvult"
		case "<=":
			f = "bvule"
		case ">":
			f = "bvugt"
		case ">=":
			f = "bvuge"
		}
		if signed {
			f = strings.Replace(f, "bvu", "bvs", 1)
		}
		return "(" + f + " " + a + " " + b + ")"
	}
	return "(" + op + " " + a + " " + b + ")"
}

// convert integer x from (fb,fs) to (tb,ts).
func (m Mode) convInt(x string, fb int, fs bool, tb int, ts bool) string {
	if m.BV {
		switch {
		case tb == fb:
			return x
		case tb < fb:
			return fmt.Sprintf("((_ extract %d 0) %s)", tb-1, x)
		default:
			if fs {
				return fmt.Sprintf("((_ sign_extend %d) %s)", tb-fb, x)
			}
			return fmt.Sprintf("((_ zero_extend %d) %s)", tb-fb, x)
		}
	}
	// int mode: value preserved when it fits
	if fs == ts && tb >= fb {
		return x
	}
	if !fs && ts && tb > fb {
		return x
	}
	return m.wrap(x, tb, ts)
}

const prelude = `
(define-fun tdiv ((a Int) (b Int)) Int (ite (= b 0) 0 (ite (>= a 0) (ite (> b 0) (div a b) (- (div a (- b)))) (ite (> b 0) (- (div (- a) b)) (div (- a) (- b))))))
(define-fun trem ((a Int) (b Int)) Int (- a (* b (tdiv a b))))
(define-fun imin ((a Int) (b Int)) Int (ite (<= a b) a b))
(define-fun imax ((a Int) (b Int)) Int (ite (>= a b) a b))
(declare-datatypes ((Iface 0)) (((mk-iface (itag Int) (ival Int)))))
`

// ---------------------------------------------------------------------------------------------
// Query: declarations + ordered assumptions + obligations.

type Obligation struct {
	Name     string // stable name
	Kind     string
	Goal     string // formula that must be valid under the assumptions
	AltGoal  string // equivalent formulation (skolemised) tried when Goal gets no answer
	NAssume  int    // number of assumptions in scope
	ExpectSat bool  // vacuity probe: goal "false" must be refutable, i.e. assumptions satisfiable
	Pos      string
	Detail   string
	// results
	Status   string // unsat (discharged) / sat / unknown / timeout
	Solver   string
	Time     float64
	Model    string
	File     string
	FnName   string
	Ctx      *ReplayCtx
}

type Query struct {
	mode     Mode
	sorts    []string        // datatype declarations in order
	sortSeen map[string]bool
	decls    []string
	declSeen map[string]bool
	assumes  []string
	obls     []*Obligation
	n        int
}

func NewQuery(m Mode) *Query {
	return &Query{mode: m, sortSeen: map[string]bool{}, declSeen: map[string]bool{}}
}

func (q *Query) fresh(prefix string) string {
	q.n++
	return fmt.Sprintf("%s!%d", sanitize(prefix), q.n)
}

func sanitize(s string) string {
	var b strings.Builder
	for _, c := range s {
		switch {
		case c >= 'a' && c <= 'z', c >= 'A' && c <= 'Z', c >= '0' && c <= '9', c == '_', c == '.', c == '$':
			b.WriteRune(c)
		default:
			b.WriteByte('_')
		}
	}
	return b.String()
}

func (q *Query) declareConst(name, sort string) string {
	if !q.declSeen[name] {
		q.declSeen[name] = true
		q.decls = append(q.decls, fmt.Sprintf("(declare-fun %s () %s)", name, sort))
	}
	return name
}

func (q *Query) declareFun(name string, args []string, res string) {
	if !q.declSeen[name] {
		q.declSeen[name] = true
		q.decls = append(q.decls, fmt.Sprintf("(declare-fun %s (%s) %s)", name, strings.Join(args, " "), res))
	}
}

func (q *Query) declareRaw(key, text string) {
	if !q.declSeen[key] {
		q.declSeen[key] = true
		q.decls = append(q.decls, text)
	}
}

func (q *Query) declareSort(key, text string) {
	if !q.sortSeen[key] {
		q.sortSeen[key] = true
		q.sorts = append(q.sorts, text)
	}
}

func (q *Query) assume(f string) {
	if f == "true" {
		return
	}
	q.assumes = append(q.assumes, f)
}

// bind introduces a named constant equal to term.
func (q *Query) bind(prefix, sort, term string) string {
	n := q.fresh(prefix)
	q.declareConst(n, sort)
	q.assume("(= " + n + " " + term + ")")
	return n
}

func (q *Query) oblige(o *Obligation) {
	o.NAssume = len(q.assumes)
	q.obls = append(q.obls, o)
}

func (q *Query) render(o *Obligation, wantModel bool, extra []string) string {
	var b bytes.Buffer
	b.WriteString("; obligation " + o.Name + "\n")
	if wantModel {
		b.WriteString("(set-option :produce-models true)\n")
	}
	b.WriteString("(set-logic ALL)\n")
	b.WriteString(prelude)
	if q.mode.BV {
		b.WriteString("(declare-datatypes ((Slice 0)) (((mk-slice (sbase Int) (soff (_ BitVec 64)) (slen (_ BitVec 64)) (scap (_ BitVec 64))))))\n")
		b.WriteString("(declare-datatypes ((Str 0)) (((mk-str (sarr (Array (_ BitVec 64) (_ BitVec 8))) (strlen (_ BitVec 64))))))\n")
	} else {
		b.WriteString("(declare-datatypes ((Slice 0)) (((mk-slice (sbase Int) (soff Int) (slen Int) (scap Int)))))\n")
		b.WriteString("(declare-datatypes ((Str 0)) (((mk-str (sarr (Array Int Int)) (strlen Int)))))\n")
	}
	for _, s := range q.sorts {
		b.WriteString(s + "\n")
	}
	for _, d := range q.decls {
		b.WriteString(d + "\n")
	}
	for _, a := range q.assumes[:o.NAssume] {
		b.WriteString("(assert " + a + ")\n")
	}
	for _, a := range extra {
		b.WriteString("(assert " + a + ")\n")
	}
	if !o.ExpectSat {
		b.WriteString("(assert (not " + o.Goal + "))\n")
	} else if o.Goal != "" {
		b.WriteString("(assert " + o.Goal + ")\n")
	}
	b.WriteString("(check-sat)\n")
	if wantModel {
		b.WriteString("(get-model)\n")
	}
	return b.String()
}

// ---------------------------------------------------------------------------------------------
// Solver portfolio

type solverDef struct {
	name string
	args func(file string, timeoutS int) []string
}

var solvers = []solverDef{
	{"z3-new", func(f string, t int) []string { return []string{"z3-new", fmt.Sprintf("-T:%d", t), f} }},
	{"z3", func(f string, t int) []string { return []string{"z3", fmt.Sprintf("-T:%d", t), f} }},
	{"cvc5", func(f string, t int) []string {
		return []string{"cvc5", "--produce-models", fmt.Sprintf("--tlimit=%d", t*1000), f}
	}},
	// array extensionality switched off: only drops axioms, so `unsat` answers remain sound; `sat` answers of this member
	// are not models of the full theory and are discarded (see runSolver)
	{"z3-new-noext", func(f string, t int) []string {
		return []string{"z3-new", "smt.array.extensional=false", fmt.Sprintf("-T:%d", t), f}
	}},
}

type solveResult struct {
	status string
	solver string
	out    string
	secs   float64
}

func runSolver(ctx context.Context, sd solverDef, file string, timeoutS int) solveResult {
	start := time.Now()
	args := sd.args(file, timeoutS)
	cctx, cancel := context.WithTimeout(ctx, time.Duration(timeoutS+2)*time.Second)
	defer cancel()
	cmd := exec.CommandContext(cctx, args[0], args[1:]...)
	var out bytes.Buffer
	cmd.Stdout = &out
	cmd.Stderr = &out
	cmd.Run()
	s := out.String()
	first := strings.TrimSpace(strings.SplitN(s, "\n", 2)[0])
	st := "unknown"
	switch first {
	case "sat", "unsat":
		st = first
	case "timeout":
		st = "timeout"
	default:
		if strings.Contains(first, "error") || strings.HasPrefix(first, "(error") {
			st = "error"
		}
		if cctx.Err() != nil {
			st = "timeout"
		}
	}
	if sd.name == "z3-new-noext" && st == "sat" {
		st = "unknown"
	}
	return solveResult{st, sd.name, s, time.Since(start).Seconds()}
}

// solveRace: z3-new alone for a short slice first; then all three in parallel.
func solveRace(file string, timeoutS int, confirm bool) (solveResult, []solveResult) {
	var all []solveResult
	quick := 2
	if timeoutS < quick {
		quick = timeoutS
	}
	r := runSolver(context.Background(), solvers[0], file, quick)
	all = append(all, r)
	if (r.status == "sat" || r.status == "unsat") && !confirm {
		return r, all
	}
	ctx, cancel := context.WithCancel(context.Background())
	defer cancel()
	ch := make(chan solveResult, len(solvers))
	for _, sd := range solvers {
		sd := sd
		go func() { ch <- runSolver(ctx, sd, file, timeoutS) }()
	}
	var best solveResult
	best.status = "unknown"
	definite := 0
	var grace <-chan time.Time
	for i := 0; i < len(solvers); i++ {
		var x solveResult
		select {
		case x = <-ch:
		case <-grace:
			// a second solver did not confirm within the grace period after the first definite answer: keep the first
			cancel()
			i = len(solvers)
			continue
		}
		if (x.status == "sat" || x.status == "unsat") && definite == 0 && confirm {
			grace = time.After(time.Duration(10+3*x.secs) * time.Second)
		}
		all = append(all, x)
		if x.status == "sat" || x.status == "unsat" {
			if definite == 0 {
				best = x
			} else if x.status != best.status {
				best.status = "disagree"
				best.out += "\n--- " + x.solver + ":\n" + x.out
			}
			definite++
			if !confirm || definite >= 2 {
				cancel()
				break
			}
		} else if best.status == "unknown" && definite == 0 {
			if x.status == "timeout" || best.solver == "" {
				best = x
			}
		}
	}
	if r.status == "sat" || r.status == "unsat" {
		if definite > 0 && best.status != r.status && best.status != "disagree" {
			best.status = "disagree"
		} else if definite == 0 {
			best = r
		}
	}
	return best, all
}

var gShortTimeout = map[string]bool{}

// dischargeAll runs all obligations with a worker pool.
func dischargeAll(q *Query, outDir string, timeoutS int, confirm bool, workers int) {
	if v := os.Getenv("GOVC_WORKERS"); v != "" {
		var n int
		if _, err := fmt.Sscanf(v, "%d", &n); err == nil && n > 0 {
			workers = n
		}
	}
	os.MkdirAll(outDir, 0o755)
	var wg sync.WaitGroup
	sem := make(chan struct{}, workers)
	for i, o := range q.obls {
		if o.Status != "" {
			continue
		}
		wg.Add(1)
		sem <- struct{}{}
		go func(i int, o *Obligation) {
			defer wg.Done()
			defer func() { <-sem }()
			file := filepath.Join(outDir, fmt.Sprintf("%s.smt2", sanitizeFile(o.Name)))
			os.WriteFile(file, []byte(q.render(o, true, nil)), 0o644)
			o.File = file
			to := timeoutS
			if o.ExpectSat && to > 3 {
				to = 3
			}
			if gShortTimeout[o.Name] && to > 5 {
				to = 5 // obligations listed as known findings / unclaimed are expected not to discharge
			}
			res, _ := solveRace(file, to, confirm && !o.ExpectSat)
			if res.status != "unsat" && res.status != "sat" && o.AltGoal != "" && !o.ExpectSat {
				o2 := *o
				o2.Goal = o.AltGoal
				file2 := strings.TrimSuffix(file, ".smt2") + ".alt.smt2"
				os.WriteFile(file2, []byte(q.render(&o2, true, nil)), 0o644)
				if r2, _ := solveRace(file2, to, false); r2.status == "unsat" || r2.status == "sat" {
					res = r2
					res.solver += "(skolemised)"
					o.File = file2
				}
			}
			o.Status, o.Solver, o.Time = res.status, res.solver, res.secs
			if res.status == "sat" || res.status == "unknown" || res.status == "timeout" || res.status == "error" || res.status == "disagree" {
				o.Model = res.out
			}
		}(i, o)
	}
	wg.Wait()
}

func sanitizeFile(s string) string {
	r := strings.NewReplacer("/", "_", " ", "_", "*", "p", "(", "", ")", "", "#", "--", ":", "-", "[", "_", "]", "_", "<", "lt", ">", "gt", "=", "eq", "&", "and", "|", "or", "\"", "", "'", "", ",", "_", "!", "not", "%", "mod", "+", "plus", "?", "q", "^", "x", "~", "_", "`", "", "{", "", "}", "", ";", "")
	x := r.Replace(s)
	if len(x) > 150 {
		x = x[:150]
	}
	return x
}
