package main

// sync/atomic functions on integer cells: each call is one sequentially consistent atomic step on the addressed cell.

import (
	"go/token"
	"go/types"

	"golang.org/x/tools/go/ssa"
)

func init() {
	pending = append(pending, func() {
		cellT := func(c *ssa.CallCommon) types.Type { return c.Args[0].Type().Underlying().(*types.Pointer).Elem() }
		load := func(fv *FnVerifier, c *ssa.CallCommon, args []Val, st *State, name string, pos token.Pos) string {
			t := cellT(c)
			var s string
			if args[0].Addr != nil {
				s = fv.loadAddr(st, args[0].Addr)
			} else {
				fv.nilCheck(args[0].S, fv.exprText(c.Args[0]), pos, c.Args[0])
				s = fv.loadPtr(st, args[0].S, t).S
			}
			v := fv.q.bind(name+".cell", fv.sortOf(t), s)
			fv.q.assume(fv.wf(v, t, st))
			return v
		}
		store := func(fv *FnVerifier, c *ssa.CallCommon, args []Val, st *State, pos token.Pos, v string) {
			t := cellT(c)
			if args[0].Addr != nil {
				fv.frameCheck(st, args[0].Addr, pos)
				fv.storeAddr(st, args[0].Addr, v)
			} else {
				fv.frameCheckRef(st, args[0].S, t, pos)
				fv.storePtr(st, args[0].S, t, v)
			}
		}
		note := func(fv *FnVerifier) {
			fv.note("model: sync/atomic operations are single sequentially consistent steps on the addressed cell (interleavings with other goroutines are not explored)")
		}
		all := func(fv *FnVerifier) []string { return []string{"*all"} }
		for _, tn := range []string{"Int32", "Int64", "Uint32", "Uint64"} {
			models["sync/atomic.Load"+tn] = model{apply: func(fv *FnVerifier, c *ssa.CallCommon, args []Val, st *State, pos token.Pos, name string) Val {
				note(fv)
				return Val{T: cellT(c), S: load(fv, c, args, st, name, pos)}
			}, writes: noWrites}
			models["sync/atomic.Store"+tn] = model{apply: func(fv *FnVerifier, c *ssa.CallCommon, args []Val, st *State, pos token.Pos, name string) Val {
				note(fv)
				store(fv, c, args, st, pos, args[1].S)
				return Val{}
			}, writes: all}
			models["sync/atomic.Add"+tn] = model{apply: func(fv *FnVerifier, c *ssa.CallCommon, args []Val, st *State, pos token.Pos, name string) Val {
				note(fv)
				t := cellT(c)
				b, s, _ := intInfo(t)
				old := load(fv, c, args, st, name, pos)
				res, _, _, err := fv.mode.arith("+", old, args[1].S, b, s)
				if err != nil {
					unsupported("%v", err)
				}
				nv := fv.q.bind(name, fv.sortOf(t), res)
				store(fv, c, args, st, pos, nv)
				return Val{T: t, S: nv}
			}, writes: all}
			models["sync/atomic.Swap"+tn] = model{apply: func(fv *FnVerifier, c *ssa.CallCommon, args []Val, st *State, pos token.Pos, name string) Val {
				note(fv)
				old := load(fv, c, args, st, name, pos)
				store(fv, c, args, st, pos, args[1].S)
				return Val{T: cellT(c), S: old}
			}, writes: all}
			models["sync/atomic.CompareAndSwap"+tn] = model{apply: func(fv *FnVerifier, c *ssa.CallCommon, args []Val, st *State, pos token.Pos, name string) Val {
				note(fv)
				old := load(fv, c, args, st, name, pos)
				ok := fv.q.bind(name, "Bool", "(= "+old+" "+args[1].S+")")
				store(fv, c, args, st, pos, "(ite "+ok+" "+args[2].S+" "+old+")")
				return Val{T: types.Typ[types.Bool], S: ok}
			}, writes: all}
		}
	})
}
