package main

// Calls of closures created in the verified function (typically `defer func(){ log...; mu.Unlock() }()`), and calls through
// func-typed struct fields.

import (
	"go/token"
	"go/types"

	"golang.org/x/tools/go/ssa"
)

// inlineClosure executes a closure body in place when it is straight-line (one basic block, apart from the recover
// block): captured variables are the caller's cells, so writes through them are the caller's writes.
func (fv *FnVerifier) inlineClosure(mc *ssa.MakeClosure, c *ssa.CallCommon, st *State, pos token.Pos) (Val, bool) {
	fn, ok := mc.Fn.(*ssa.Function)
	if !ok || len(fn.Blocks) == 0 {
		return Val{}, false
	}
	return fv.inlineFn(fn, fv.value(mc, st).Binds, c, st, pos)
}

// inlineFn inlines an anonymous function (with the given captured values) at a call.
func (fv *FnVerifier) inlineFn(fn *ssa.Function, binds []Val, c *ssa.CallCommon, st *State, pos token.Pos) (Val, bool) {
	if len(fn.Blocks) == 0 {
		return Val{}, false
	}
	var body *ssa.BasicBlock
	for _, b := range fn.Blocks {
		if b == fn.Blocks[0] {
			body = b
			continue
		}
		if len(b.Preds) == 0 {
			continue // recover block
		}
		return Val{}, false // branching closure bodies are not inlined
	}
	if len(binds) != len(fn.FreeVars) {
		return Val{}, false
	}
	for i, fvv := range fn.FreeVars {
		fv.env[fvv] = binds[i]
	}
	for i, p := range fn.Params {
		if i < len(c.Args) {
			fv.env[p] = fv.value(c.Args[i], st)
		}
	}
	savedBlock, savedInstr := fv.curBlock, fv.curInstr
	fv.reach[body] = fv.reach[savedBlock]
	fv.curBlock = body
	var result Val
	for _, in := range body.Instrs {
		if st.dead {
			break
		}
		switch x := in.(type) {
		case *ssa.Return:
			if len(x.Results) == 1 {
				result = fv.value(x.Results[0], st)
			} else if len(x.Results) > 1 {
				var tup []Val
				for _, r := range x.Results {
					tup = append(tup, fv.value(r, st))
				}
				result = Val{T: fn.Signature.Results(), Tup: tup}
			}
		case *ssa.Defer, *ssa.RunDefers:
			fv.curBlock, fv.curInstr = savedBlock, savedInstr
			unsupported("defer inside an inlined closure")
		default:
			fv.execInstr(in, st)
		}
	}
	fv.curBlock, fv.curInstr = savedBlock, savedInstr
	fv.note("closure body inlined at its call: " + fn.Name())
	return result, true
}

// funcFieldContract: `x.f(args)` where f is a func-typed field of struct T: the contract is written like a method contract
// `func (x *T) f(params) (results)`; the receiver is the struct pointer.
func (fv *FnVerifier) funcFieldContract(c *ssa.CallCommon, st *State) (*FuncContract, Val) {
	ld, ok := c.Value.(*ssa.UnOp)
	if !ok || ld.Op != token.MUL {
		return nil, Val{}
	}
	fa, ok := ld.X.(*ssa.FieldAddr)
	if !ok {
		return nil, Val{}
	}
	pt := fa.X.Type().Underlying().(*types.Pointer).Elem()
	n, ok := pt.(*types.Named)
	if !ok || n.Obj().Pkg() == nil {
		return nil, Val{}
	}
	stt := pt.Underlying().(*types.Struct)
	fc := fv.eng.cs.Funcs[n.Obj().Pkg().Path()+"#"+n.Obj().Name()+"."+stt.Field(fa.Field).Name()]
	if fc == nil {
		return nil, Val{}
	}
	recv := fv.value(fa.X, st)
	if recv.Addr != nil {
		return nil, Val{}
	}
	return fc, recv
}
