package main

import (
	"bytes"
	"encoding/json"
	"fmt"
	"go/types"
	"os"
	"os/exec"
	"path/filepath"
	"regexp"
	"strconv"
	"strings"
	"time"

	"golang.org/x/tools/go/ssa"
)

// VerifyLemma: a lemma is a first-order statement over typed variables, proved once by the solver.
func (e *Engine) VerifyLemma(lem *Lemma, sp *ssa.Package) (res *FnResult) {
	mode := Mode{BV: lem.Mode == "bv"}
	fc := &FuncContract{PkgPath: lem.PkgPath, Loops: map[int]*LoopSpec{}, NoPanic: false}
	fv := &FnVerifier{eng: e, fc: fc, mode: mode, q: NewQuery(mode), env: map[ssa.Value]Val{},
		arrSort: map[string]string{}, arrBase: map[string]bool{}, reach: map[*ssa.BasicBlock]string{}, names: map[string]Val{},
		nameCount: map[string]int{}, fnShort: "lemma." + lem.Name, notes: map[string]bool{}, strLits: map[string]string{},
		structSeen: map[string]bool{}, axiomsDone: map[string]bool{}, lockOf: map[ssa.Value]string{}, strApps: map[string]string{}}
	res = &FnResult{Fn: fv.fnShort, Query: fv.q, Mode: mode.String()}
	defer func() {
		if r := recover(); r != nil {
			if u, ok := r.(unsupportedErr); ok {
				res.Unsupported = u.msg
			} else {
				panic(r)
			}
		}
		for n := range fv.notes {
			res.Notes = append(res.Notes, n)
		}
	}()
	st := &State{heap: map[string]string{}, locks: map[string]string{}}
	fv.q.declareConst("alloc0", "Int")
	fv.q.assume("(> alloc0 0)")
	st.alloc = "alloc0"
	fv.entry = st.clone() // old(e) in a lemma = the state before any `call`
	ce := fv.newCEnv(fv.names, st, fv.entry)
	if sp != nil {
		ce.pkg = sp.Pkg
	}
	ce.pkgPath = lem.PkgPath
	for _, v := range lem.Vars {
		t := ce.typeByName(strings.TrimPrefix(v.Type, "*"))
		if t == nil {
			unsupported("lemma %s: unknown type %s", lem.Name, v.Type)
		}
		if strings.HasPrefix(v.Type, "*") {
			t = types.NewPointer(t)
		}
		fv.names[v.Name] = fv.freshVal("v."+v.Name, t, st)
	}
	fv.lemmaMode = true
	fv.reach[nil] = "true"
	for _, s := range lem.Steps {
		if s.Hyp != nil {
			for _, p := range ce.evalClause(*s.Hyp) {
				fv.q.assume(p.term)
			}
		} else {
			fv.lemmaCall(ce, s.Call, st)
		}
	}
	fv.probe("pre-sat", "", "")
	for _, c := range lem.Concl {
		for _, p := range ce.evalClause(c) {
			fv.oblige("lemma", p.label, "", p.term, 0, c.Src)
		}
	}
	return res
}

// ---------------------------------------------------------------------------------------------
// Bounded stand-ins: the real functions executed exhaustively over a stated small scope through an overlay test
// (never counted as proved).

type boundedResult struct {
	spec   BoundedSpec
	evals  int
	failed bool
	err    string
	replay string
	wall   float64
	known  bool // the harness met (only) the failure it recognises as the listed finding: it printed RAC-KNOWN-FINDING
}

var reEvals = regexp.MustCompile(`RAC-EVALS (\d+)`)

func runBounded(id string, b BoundedSpec, tier string, seed int, outDir string) boundedResult {
	start := time.Now()
	r := boundedResult{spec: b}
	src := filepath.Join(verifDir, "rac", b.File)
	pkgDir := filepath.Join(repoDir, b.Pkg)
	ov := map[string]interface{}{"Replace": map[string]string{filepath.Join(pkgDir, "zz_verif_"+filepath.Base(b.File)): src}}
	ovData, _ := json.Marshal(ov)
	ovFile := filepath.Join(outDir, "overlay_"+sanitizeFile(b.Name)+".json")
	os.WriteFile(ovFile, ovData, 0o644)
	tmp := filepath.Join(outDir, "tmp."+sanitizeFile(b.Name))
	os.MkdirAll(tmp, 0o755)
	defer os.RemoveAll(tmp)
	to := "120s"
	if tier == "thorough" {
		to = "900s"
	}
	cmd := exec.Command("go", "test", "-overlay", ovFile, "-vet=off", "-count=1", "-timeout", to, "-run", b.Run, "-v", ".")
	cmd.Dir = pkgDir
	cmd.Env = append(os.Environ(), "GOFLAGS=-mod=mod", "GOPROXY=off", "GOSUMDB=off", "GOTOOLCHAIN=local", "TMPDIR="+tmp,
		"VERIF_TIER="+tier, "VERIF_SEED="+strconv.Itoa(seed))
	var out bytes.Buffer
	cmd.Stdout = &out
	cmd.Stderr = &out
	err := cmd.Run()
	log := filepath.Join(outDir, "bounded_"+sanitizeFile(b.Name)+".log")
	os.WriteFile(log, out.Bytes(), 0o644)
	for _, m := range reEvals.FindAllStringSubmatch(out.String(), -1) {
		n, _ := strconv.Atoi(m[1])
		r.evals += n
	}
	s := out.String()
	r.known = strings.Contains(s, "RAC-KNOWN-FINDING")
	switch {
	case strings.Contains(s, "RAC-FAIL"):
		r.failed = true
		r.replay = log
		for _, l := range strings.Split(s, "\n") {
			if strings.Contains(l, "RAC-FAIL") {
				fmt.Println("bounded", b.Name+":", strings.TrimSpace(l))
				break
			}
		}
	case err != nil:
		if strings.Contains(s, "[build failed]") || strings.Contains(s, "cannot find") || strings.Contains(s, "setup failed") {
			r.err = "harness does not build: " + firstLines(s, 5)
		} else if strings.Contains(s, "--- FAIL") || strings.Contains(s, "panic:") {
			r.failed = true
			r.replay = log
		} else {
			r.err = "harness error: " + firstLines(s, 5)
		}
	case r.evals == 0:
		r.err = "harness reported no evaluations"
	}
	r.wall = time.Since(start).Seconds()
	return r
}

func firstLines(s string, n int) string {
	ls := strings.Split(s, "\n")
	if len(ls) > n {
		ls = ls[:n]
	}
	return strings.Join(ls, " | ")
}

func cmdReplay(args []string) int {
	if len(args) == 0 {
		fmt.Println("usage: govc replay <path>")
		return 2
	}
	data, err := os.ReadFile(args[0])
	if err != nil {
		fmt.Println(err)
		return 2
	}
	fmt.Println(string(data))
	if strings.HasSuffix(args[0], "_test.go") {
		return runReplayTest(args[0])
	}
	return 0
}
