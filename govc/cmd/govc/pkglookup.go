package main

import (
	"go/types"

	"golang.org/x/tools/go/ssa"
)

// packageByName finds a loaded package by its name, preferring one imported by the package at prefPath.
func (e *Engine) packageByName(name, prefPath string) *types.Package {
	var first *types.Package
	for _, sp := range e.prog.AllPackages() {
		if sp.Pkg == nil {
			continue
		}
		if sp.Pkg.Path() == prefPath {
			for _, imp := range sp.Pkg.Imports() {
				if imp.Name() == name {
					return imp
				}
			}
		}
	}
	for _, sp := range e.prog.AllPackages() {
		if sp.Pkg != nil && sp.Pkg.Name() == name {
			if first == nil || len(sp.Pkg.Path()) < len(first.Path()) {
				first = sp.Pkg
			}
		}
	}
	return first
}

// fieldOfSelf reports whether name is a field of the struct whose invariant is being evaluated.
func (ce *CEnv) fieldOfSelf(name string) (Val, bool) {
	if ce.self == nil {
		return Val{}, false
	}
	return ce.fieldOf(*ce.self, name, false)
}

// externContract finds an `extern func` contract for a function outside the repository.
// Extern contracts are assumptions of the package whose contract file states them: they apply only while verifying
// functions and lemmas of that package.
func (fv *FnVerifier) externContract(obj *types.Func) *FuncContract {
	e := fv.eng
	if obj == nil || obj.Pkg() == nil || fv.fc == nil {
		return nil
	}
	key := "extern#" + fv.fc.PkgPath + "#" + obj.Pkg().Name() + "."
	if sig, ok := obj.Type().(*types.Signature); ok && sig.Recv() != nil {
		if n, ok := derefNamed(sig.Recv().Type()); ok {
			key += n.Obj().Name() + "."
		}
	}
	return e.cs.Funcs[key+obj.Name()]
}

// blockReaches reports whether there is a CFG path from a to b.
func blockReaches(a, b *ssa.BasicBlock) bool {
	seen := map[*ssa.BasicBlock]bool{}
	stack := []*ssa.BasicBlock{a}
	for len(stack) > 0 {
		x := stack[len(stack)-1]
		stack = stack[:len(stack)-1]
		if x == b {
			return true
		}
		if seen[x] {
			continue
		}
		seen[x] = true
		stack = append(stack, x.Succs...)
	}
	return false
}

// lookupTypeInNamedPackages finds a type `pkgName.typeName` in any loaded package of that name.
func (e *Engine) lookupTypeInNamedPackages(pkgName, typeName string) types.Type {
	for _, sp := range e.prog.AllPackages() {
		if sp.Pkg != nil && sp.Pkg.Name() == pkgName {
			if tn, ok := sp.Pkg.Scope().Lookup(typeName).(*types.TypeName); ok {
				return tn.Type()
			}
		}
	}
	return nil
}

// packageByPath returns the loaded package with the given import path.
func (e *Engine) packageByPath(path string) *types.Package {
	for _, sp := range e.prog.AllPackages() {
		if sp.Pkg != nil && sp.Pkg.Path() == path {
			return sp.Pkg
		}
	}
	return nil
}
