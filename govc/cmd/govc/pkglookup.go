package main

import "go/types"

// packageByName finds a loaded package by its name, preferring one imported by the package at prefPath.
func (e *Engine) packageByName(name, prefPath string) *types.Package {
	var first *types.Package
	for _, sp := range e.prog.AllPackages() {
		if sp.Pkg == nil {
			continue
		}
		if sp.Pkg.Path() == prefPath {
			for _, imp := range sp.Pkg.Imports() {
				if imp.Name() == name {
					return imp
				}
			}
		}
	}
	for _, sp := range e.prog.AllPackages() {
		if sp.Pkg != nil && sp.Pkg.Name() == name {
			if first == nil || len(sp.Pkg.Path()) < len(first.Path()) {
				first = sp.Pkg
			}
		}
	}
	return first
}

// fieldOfSelf reports whether name is a field of the struct whose invariant is being evaluated.
func (ce *CEnv) fieldOfSelf(name string) (Val, bool) {
	if ce.self == nil {
		return Val{}, false
	}
	return ce.fieldOf(*ce.self, name, false)
}
