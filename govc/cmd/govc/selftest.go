package main

// Self-test: must-fail mutants (source edits applied as go/packages overlays, /repo is not touched) and harmless edits.

import (
	"encoding/json"
	"fmt"
	"os"
	"path/filepath"
	"strings"
)

type Mutant struct {
	Name     string `json:"name"`
	File     string `json:"file"` // relative to /repo
	Old      string `json:"old"`
	New      string `json:"new"`
	Expect   string `json:"expect"`   // substring of an obligation name that must fail
	Harmless bool   `json:"harmless"` // all obligations must still discharge
}

var gOverlay map[string][]byte
var gSelftest bool
var gLastResult *checkResult

func cmdSelftest(id string, verbose bool) int {
	data, err := os.ReadFile(filepath.Join(verifDir, "selftest", id+".json"))
	if err != nil {
		fmt.Println("no selftest corpus for", id)
		return 0
	}
	var muts []Mutant
	if err := json.Unmarshal(data, &muts); err != nil {
		fmt.Println("ERROR selftest corpus:", err)
		return 2
	}
	bad := 0
	for _, m := range muts {
		path := filepath.Join(repoDir, m.File)
		src, err := os.ReadFile(path)
		if err != nil {
			fmt.Println("ERROR", err)
			return 2
		}
		if strings.Count(string(src), m.Old) != 1 {
			fmt.Printf("SELFTEST %s/%s: pattern occurs %d times (stale mutant)\n", id, m.Name, strings.Count(string(src), m.Old))
			bad++
			continue
		}
		gOverlay = map[string][]byte{path: []byte(strings.Replace(string(src), m.Old, m.New, 1))}
		gSelftest = true
		gLastResult = nil
		tier := os.Getenv("VERIF_TIER")
		if tier == "" {
			tier = "quick"
		}
		cmdCheck(id, tier, false, false)
		gOverlay, gSelftest = nil, false
		cr := gLastResult
		var failedNames []string
		hit := false
		if cr != nil {
			for _, o := range cr.obligations {
				if !o.ExpectSat && o.Status != "unsat" {
					failedNames = append(failedNames, o.Name+"["+o.Status+"]")
					if m.Expect != "" && strings.Contains(o.Name, m.Expect) {
						hit = true
					}
				}
			}
			for _, e := range cr.errors {
				failedNames = append(failedNames, "ERROR:"+e)
			}
		}
		known := map[string]bool{}
		for _, kf := range loadKnownFindings() {
			known[kf.obligation] = true
		}
		if sp, err := loadSpec(id); err == nil {
			for _, u := range sp.Unclaimed {
				known[u] = true
			}
		}
		var unexpected []string
		for _, n := range failedNames {
			nm := n
			if i := strings.LastIndex(nm, "["); i > 0 {
				nm = nm[:i]
			}
			if !known[nm] {
				unexpected = append(unexpected, n)
			}
		}
		switch {
		case m.Harmless && len(unexpected) > 0:
			fmt.Printf("SELFTEST %s/%s: FALSE ALARM on harmless edit: %v\n", id, m.Name, unexpected)
			bad++
		case m.Harmless:
			fmt.Printf("SELFTEST %s/%s: ok (harmless edit, all discharged)\n", id, m.Name)
		case hit:
			fmt.Printf("SELFTEST %s/%s: ok (caught by %s)\n", id, m.Name, m.Expect)
		case len(unexpected) > 0 && m.Expect == "" && !strings.Contains(strings.Join(unexpected, " "), "does not compile"):
			fmt.Printf("SELFTEST %s/%s: ok (caught: %v)\n", id, m.Name, unexpected)
		default:
			fmt.Printf("SELFTEST %s/%s: MISSED (expected %q, failing: %v)\n", id, m.Name, m.Expect, failedNames)
			bad++
		}
	}
	if bad > 0 {
		return 2
	}
	return 0
}
