package main

import (
	"fmt"
	"os"
	"strconv"
	"sync"
)

// baselineMaxSecs: obligations slower than this when the baseline is written are not claimed.
func baselineMaxSecs() float64 {
	if v := os.Getenv("GOVC_BASELINE_MAX"); v != "" {
		if f, err := strconv.ParseFloat(v, 64); err == nil && f > 0 {
			return f
		}
	}
	return 8
}

// retryTimedOut re-runs baseline obligations whose first attempt ended without an answer (timeout/unknown), three at a
// time with three times the budget. A machine under load must not turn a proved obligation into an alarm.
func retryTimedOut(cr *checkResult, baseline map[string]bool, known map[string]knownFinding, unclaimed map[string]bool, tier string) {
	var todo []*Obligation
	for _, o := range cr.obligations {
		if o.ExpectSat || o.File == "" || !baseline[o.Name] || unclaimed[o.Name] {
			continue
		}
		if _, ok := known[o.Name]; ok {
			continue
		}
		if o.Status == "timeout" || o.Status == "unknown" {
			todo = append(todo, o)
		}
	}
	if len(todo) == 0 {
		return
	}
	to := 90
	if tier == "thorough" {
		to = 360
	}
	fmt.Printf("NOTE: %d baseline obligations without an answer in the first pass; retrying with %ds\n", len(todo), to)
	sem := make(chan struct{}, 3)
	var wg sync.WaitGroup
	for _, o := range todo {
		wg.Add(1)
		sem <- struct{}{}
		go func(o *Obligation) {
			defer wg.Done()
			defer func() { <-sem }()
			res, _ := solveRace(o.File, to, false)
			if res.status == "unsat" || res.status == "sat" {
				o.Time += res.secs
				o.Status, o.Solver = res.status, res.solver+"(retry)"
				if res.status == "sat" {
					o.Model = res.out
				} else {
					o.Model = ""
				}
			}
		}(o)
	}
	wg.Wait()
}
