package main

import (
	"fmt"
	"go/token"
	"go/types"
	"math"
	"os"
	"sort"
	"strings"

	"golang.org/x/tools/go/ssa"
)

func float64bits(f float64) uint64 { return math.Float64bits(f) }
func float32bits(f float32) uint32 { return math.Float32bits(f) }

func (e *Engine) source(file string) []byte {
	if d, ok := e.srcCache[file]; ok {
		return d
	}
	d, err := os.ReadFile(file)
	if err != nil {
		d = nil
	}
	e.srcCache[file] = d
	return d
}

func shortFnName(fn *ssa.Function) string {
	pkg := ""
	if fn.Pkg != nil {
		parts := strings.Split(fn.Pkg.Pkg.Path(), "/")
		pkg = parts[len(parts)-1]
	}
	if recv := fn.Signature.Recv(); recv != nil {
		t := recv.Type()
		if p, ok := t.(*types.Pointer); ok {
			t = p.Elem()
		}
		if n, ok := t.(*types.Named); ok {
			return pkg + "." + n.Obj().Name() + "." + fn.Name()
		}
	}
	return pkg + "." + fn.Name()
}

type FnResult struct {
	Fn          string
	Query       *Query
	Unsupported string
	Notes       []string
	Mode        string
	Trusted     bool
}

// VerifyFunction generates all obligations for fn under contract fc.
func (e *Engine) VerifyFunction(fn *ssa.Function, fc *FuncContract) (res *FnResult) {
	mode := Mode{BV: fc.Mode == "bv"}
	fv := &FnVerifier{eng: e, fn: fn, fc: fc, mode: mode, q: NewQuery(mode), env: map[ssa.Value]Val{},
		arrSort: map[string]string{}, arrBase: map[string]bool{}, reach: map[*ssa.BasicBlock]string{}, outState: map[*ssa.BasicBlock]*State{},
		edgeCond: map[[2]*ssa.BasicBlock]string{}, brCond: map[*ssa.BasicBlock]string{}, names: map[string]Val{},
		nameCount: map[string]int{}, fnShort: shortFnName(fn), notes: map[string]bool{}, strLits: map[string]string{},
		structSeen: map[string]bool{}, axiomsDone: map[string]bool{}, phiEntry: map[*ssa.Phi]Val{}, lockOf: map[ssa.Value]string{}, strApps: map[string]string{}}
	res = &FnResult{Fn: fv.fnShort, Query: fv.q, Mode: mode.String()}
	defer func() {
		if r := recover(); r != nil {
			if u, ok := r.(unsupportedErr); ok {
				where := ""
				if fv.curInstr != nil {
					where = " at " + fv.posString(fv.curInstr.Pos())
				}
				res.Unsupported = u.msg + where
			} else {
				panic(r)
			}
		}
		for n := range fv.notes {
			res.Notes = append(res.Notes, n)
		}
		sort.Strings(res.Notes)
	}()
	if fn.Blocks == nil {
		unsupported("function %s has no body", fn)
	}
	fv.run()
	return res
}

func (fv *FnVerifier) run() {
	fn := fv.fn
	fv.prescanElemPtrs()
	st := &State{heap: map[string]string{}, locks: map[string]string{}}
	a0 := fv.q.declareConst("alloc0", "Int")
	fv.q.assume("(> alloc0 0)")
	st.alloc = a0
	fv.entry = st
	// parameters
	for i, p := range fn.Params {
		v := fv.freshVal("p."+p.Name(), p.Type(), st)
		fv.env[p] = v
		fv.names[p.Name()] = v
		fv.names[p.Name()+"0"] = v // entry value under a name that a loop variable of the same name cannot shadow
		fv.params = append(fv.params, v)
		if i == 0 && fn.Signature.Recv() != nil {
			if _, ok := p.Type().Underlying().(*types.Pointer); ok {
				fv.q.assume("(not (= " + v.S + " 0))")
				fv.note("implicit precondition: receiver is non-nil")
			}
			if fv.fc.RecvName != "" {
				fv.names[fv.fc.RecvName] = v
			}
		}
	}
	// contract parameter names may differ from source names: bind positionally
	off := 0
	if fn.Signature.Recv() != nil {
		off = 1
	}
	if len(fv.fc.Params) != len(fv.params)-off {
		unsupported("contract header lists %d parameters, the function has %d: the contract no longer describes this function", len(fv.fc.Params), len(fv.params)-off)
	}
	for i, cp := range fv.fc.Params {
		if off+i < len(fv.params) {
			fv.names[cp.Name] = fv.params[off+i]
		}
	}
	for _, fvv := range fn.FreeVars {
		v := fv.freshVal("fv."+fvv.Name(), fvv.Type(), st)
		fv.env[fvv] = v
	}
	entrySnap := st.clone()
	fv.entry = entrySnap
	// preconditions
	ce := fv.newCEnv(fv.names, st, entrySnap)
	for _, c := range fv.fc.Requires {
		for _, part := range ce.evalClause(c) {
			fv.q.assume(part.term)
		}
	}
	for _, c := range fv.fc.Assumes {
		for _, part := range ce.evalClause(c) {
			fv.q.assume(part.term)
			fv.note("assumed at entry: " + c.Src)
		}
	}
	for _, h := range fv.fc.Holds {
		st.locks[fv.lockKeyFromSpec(h)] = "2"
	}
	for _, h := range fv.fc.HoldsR {
		st.locks[fv.lockKeyFromSpec(h)] = "1"
	}
	for k, v := range st.locks {
		fv.entry.locks[k] = v
	}
	fv.probe("pre-sat", "", "")

	fv.computeLoops()
	order := fv.blockOrder()
	inOrder := map[*ssa.BasicBlock]bool{}
	for _, b := range order {
		inOrder[b] = true
	}
	for _, b := range order {
		fv.curBlock = b
		var bst *State
		if b == fn.Blocks[0] {
			fv.reach[b] = "true"
			bst = st
		} else {
			var edges []string
			var states []*State
			var preds []*ssa.BasicBlock
			for _, p := range b.Preds {
				if fv.isBackEdge(p, b) || !inOrder[p] {
					continue
				}
				os, ok := fv.outState[p]
				if !ok || os.dead {
					continue
				}
				edges = append(edges, fv.edgeCond[[2]*ssa.BasicBlock{p, b}])
				states = append(states, os)
				preds = append(preds, p)
			}
			if len(states) == 0 {
				// unreachable (e.g. after panic)
				fv.reach[b] = "false"
				fv.outState[b] = &State{dead: true}
				continue
			}
			r := fv.q.bind(fmt.Sprintf("reach.b%d", b.Index), "Bool", orN(edges))
			fv.reach[b] = r
			bst = fv.mergeStates(edges, states)
			// phis
			_, isHead := fv.loopHeads[b]
			for _, in := range b.Instrs {
				phi, ok := in.(*ssa.Phi)
				if !ok {
					break
				}
				var vals []Val
				for _, p := range preds {
					for j, bp := range b.Preds {
						if bp == p {
							vals = append(vals, fv.value(phi.Edges[j], fv.outState[p]))
							break
						}
					}
				}
				merged := fv.mergePhi(phi, edges, vals)
				if isHead {
					fv.phiEntry[phi] = merged
				}
				fv.env[phi] = merged
			}
			if isHead {
				fv.enterLoop(b, bst)
			}
		}
		for _, in := range b.Instrs {
			if bst.dead {
				break
			}
			fv.execInstr(in, bst)
		}
		fv.outState[b] = bst
		if bst.dead {
			continue
		}
		// terminator
		last := b.Instrs[len(b.Instrs)-1]
		switch t := last.(type) {
		case *ssa.If:
			c := fv.value(t.Cond, bst).S
			fv.edgeCond[[2]*ssa.BasicBlock{b, b.Succs[0]}] = fv.q.bind(fmt.Sprintf("edge.b%d.b%d", b.Index, b.Succs[0].Index), "Bool", and2(fv.reach[b], c))
			fv.edgeCond[[2]*ssa.BasicBlock{b, b.Succs[1]}] = fv.q.bind(fmt.Sprintf("edge.b%d.b%d", b.Index, b.Succs[1].Index), "Bool", and2(fv.reach[b], "(not "+c+")"))
		case *ssa.Jump:
			fv.edgeCond[[2]*ssa.BasicBlock{b, b.Succs[0]}] = fv.reach[b]
		case *ssa.Return:
			fv.atReturn(t, bst)
		}
		// back edges: invariant preservation
		for _, s := range b.Succs {
			if fv.isBackEdge(b, s) {
				fv.closeLoop(b, s, bst)
			}
		}
	}
}

func (fv *FnVerifier) mergePhi(phi *ssa.Phi, edges []string, vals []Val) Val {
	if len(vals) == 1 {
		return vals[0]
	}
	allSame := true
	for _, v := range vals[1:] {
		if v.S != vals[0].S || v.Addr != nil || v.Tup != nil {
			allSame = false
		}
	}
	if allSame && vals[0].Addr == nil {
		r := vals[0]
		r.T = phi.Type()
		return r
	}
	term := ""
	for i := len(vals) - 1; i >= 0; i-- {
		s := fv.scalar(vals[i], phi.Type())
		if term == "" {
			term = s
		} else {
			term = "(ite " + edges[i] + " " + s + " " + term + ")"
		}
	}
	name := phi.Comment
	if name == "" {
		name = phi.Name()
	}
	return Val{T: phi.Type(), S: fv.q.bind("phi."+name, fv.sortOf(phi.Type()), term)}
}

// ---------------------------------------------------------------------------------------------
// Loops

func (fv *FnVerifier) loopSpec(h *ssa.BasicBlock) *LoopSpec {
	return fv.fc.Loops[fv.loopHeads[h]]
}

// namesAt resolves source identifiers visible at block h (dominating definitions).
func (fv *FnVerifier) namesAt(h *ssa.BasicBlock, st *State) map[string]Val {
	names := map[string]Val{}
	nilBound := map[string]types.Object{}
	for k, v := range fv.names {
		names[k] = v
	}
	defer func() {
		// `x := T{...}` / `x := map[..]..{...}`: the only reference in the dominating blocks may be the declaration itself,
		// which go/ssa records with the zero value; later references name the real value, defined before the loop
		if len(nilBound) == 0 {
			return
		}
		for _, b := range h.Parent().Blocks {
			for _, in := range b.Instrs {
				x, ok := in.(*ssa.DebugRef)
				if !ok || x.IsAddr {
					continue
				}
				name := debugRefName(x)
				obj, pending := nilBound[name]
				if !pending || x.Object() != obj {
					continue
				}
				def, ok := x.X.(ssa.Instruction)
				if !ok || def.Block() == nil || def.Block() == h || !def.Block().Dominates(h) {
					continue
				}
				if _, isPhi := x.X.(*ssa.Phi); isPhi {
					continue
				}
				if v, ok := fv.env[x.X]; ok {
					names[name] = v
					delete(nilBound, name)
				}
			}
		}
	}()
	// dominator chain entry -> h
	var chain []*ssa.BasicBlock
	for b := h; b != nil; b = b.Idom() {
		chain = append(chain, b)
	}
	for i := len(chain) - 1; i >= 0; i-- {
		b := chain[i]
		for _, in := range b.Instrs {
			switch x := in.(type) {
			case *ssa.Phi:
				if x.Comment != "" {
					if v, ok := fv.env[x]; ok {
						names[x.Comment] = v
					}
				}
			case *ssa.DebugRef:
				if b == h {
					continue // references inside the head block come after the cut
				}
				id, ok := x.Expr.(interface{ String() string })
				_ = id
				name := debugRefName(x)
				if name == "" {
					continue
				}
				v, ok := fv.env[x.X]
				if !ok {
					if c, isC := x.X.(*ssa.Const); isC {
						v = fv.constVal(c)
					} else if _, isG := x.X.(*ssa.Global); isG {
						continue
					} else {
						continue
					}
				}
				if x.IsAddr {
					// address-taken local: value is the current content
					if v.Addr != nil {
						names[name] = Val{T: v.Addr.T, S: fv.loadAddr(st, v.Addr)}
					} else {
						pt := x.X.Type().Underlying().(*types.Pointer).Elem()
						if isBigInt(pt) || isOpaqueNamed(pt) {
							continue
						}
						if _, isStruct := pt.Underlying().(*types.Struct); isStruct {
							continue
						}
						names[name] = fv.loadPtr(st, v.S, pt)
					}
				} else {
					names[name] = v
					if c, isC := x.X.(*ssa.Const); isC && c.IsNil() {
						nilBound[name] = x.Object()
					} else {
						delete(nilBound, name)
					}
				}
			}
		}
	}
	return names
}

func debugRefName(x *ssa.DebugRef) string {
	if id, ok := x.Expr.(interface{ String() string }); ok {
		_ = id
	}
	switch e := x.Expr.(type) {
	case interface{ End() token.Pos }:
		_ = e
	}
	if obj := x.Object(); obj != nil {
		if _, ok := obj.(*types.Var); ok {
			v := obj.(*types.Var)
			if v.IsField() {
				return ""
			}
			return obj.Name()
		}
	}
	return ""
}

// loopWrites computes heap keys possibly written in the loop body (syntactic).
func (fv *FnVerifier) loopWrites(h *ssa.BasicBlock) (keys map[string]bool, all bool) {
	keys = map[string]bool{}
	for b := range fv.loopBody[h] {
		for _, in := range b.Instrs {
			switch x := in.(type) {
			case *ssa.Store:
				for _, k := range fv.keysOfAddr(x.Addr) {
					keys[k] = true
				}
			case *ssa.MapUpdate:
				mt := x.Map.Type().Underlying().(*types.Map)
				for _, k := range fv.mapKeys(mt) {
					keys[k] = true
				}
			case *ssa.Alloc:
				t := x.Type().(*types.Pointer).Elem()
				for _, k := range fv.keysOfType(t) {
					keys[k] = true
				}
			case *ssa.MakeSlice:
				keys[fv.elemsKey(x.Type().Underlying().(*types.Slice).Elem())] = true
			case *ssa.MakeMap:
				for _, k := range fv.mapKeys(x.Type().Underlying().(*types.Map)) {
					keys[k] = true
				}
			case *ssa.Convert:
				if _, ok := x.Type().Underlying().(*types.Slice); ok {
					keys[fv.elemsKey(types.Typ[types.Uint8])] = true
				}
			case *ssa.Call:
				ks, a := fv.callWrites(x.Common())
				if a {
					return nil, true
				}
				for _, k := range ks {
					keys[k] = true
				}
			case *ssa.Defer, *ssa.Go:
				return nil, true
			case *ssa.RunDefers:
				for _, d := range fv.defers {
					ks, a := fv.callWrites(d.Common())
					if a {
						return nil, true
					}
					for _, k := range ks {
						keys[k] = true
					}
				}
			}
		}
	}
	return keys, false
}

func (fv *FnVerifier) keysOfType(t types.Type) []string {
	if isBigInt(t) {
		return []string{fv.cellKey(t)}
	}
	if isOpaqueNamed(t) {
		return nil
	}
	if s, ok := t.Underlying().(*types.Struct); ok {
		var ks []string
		for i := 0; i < s.NumFields(); i++ {
			ks = append(ks, fv.fieldKey(t, s, i))
		}
		return ks
	}
	if a, ok := t.Underlying().(*types.Array); ok {
		return []string{fv.elemsKey(a.Elem())}
	}
	return []string{fv.cellKey(t)}
}

// keysOfAddr: heap keys a store through address value v may touch (by static shape).
func (fv *FnVerifier) keysOfAddr(v ssa.Value) []string {
	switch x := v.(type) {
	case *ssa.FieldAddr:
		pt := x.X.Type().Underlying().(*types.Pointer).Elem()
		stt := pt.Underlying().(*types.Struct)
		// interior?
		if inner := fv.rootOfAddr(x.X); inner != nil {
			return inner
		}
		if fv.isMatType(pt) {
			return []string{fv.fieldKey(pt, stt, x.Field), fv.elemsKey(pt)}
		}
		return []string{fv.fieldKey(pt, stt, x.Field)}
	case *ssa.IndexAddr:
		switch u := x.X.Type().Underlying().(type) {
		case *types.Slice:
			return []string{fv.elemsKey(u.Elem())}
		case *types.Pointer:
			if inner := fv.rootOfAddr(x.X); inner != nil {
				return inner
			}
			return []string{fv.elemsKey(u.Elem().Underlying().(*types.Array).Elem())}
		}
	case *ssa.Global:
		return []string{fv.globalKey(x)}
	}
	pt := v.Type().Underlying().(*types.Pointer).Elem()
	return fv.keysOfType(pt)
}

// rootOfAddr: if v is itself an interior address (FieldAddr/IndexAddr chain), the root keys.
func (fv *FnVerifier) rootOfAddr(v ssa.Value) []string {
	switch x := v.(type) {
	case *ssa.FieldAddr:
		return fv.keysOfAddr(x)
	case *ssa.IndexAddr:
		if _, ok := x.X.Type().Underlying().(*types.Pointer); ok {
			return fv.keysOfAddr(x)
		}
	}
	return nil
}

func (fv *FnVerifier) enterLoop(h *ssa.BasicBlock, st *State) {
	ls := fv.loopSpec(h)
	ord := fv.loopHeads[h]
	if ls == nil {
		unsupported("loop #%d has no invariant", ord)
	}
	reach := fv.reach[h]
	// inv-init: names bound to entry-merged phi values
	names := fv.namesAt(h, st)
	ce := fv.newCEnv(names, st, fv.entry)
	for _, c := range ls.Invariants {
		for _, part := range ce.evalClause(c) {
			fv.oblige("inv-init", fmt.Sprintf("loop%d:%s", ord, part.label), reach, part.term, token.NoPos, c.Src)
		}
	}
	// havoc
	keys, all := fv.loopWrites(h)
	if all {
		fv.havocAll(st)
		fv.note(fmt.Sprintf("loop %s#%d: whole heap havoc'd at the head (callee without frame in the body)", fv.fnShort, ord))
	} else {
		var ks []string
		for k := range keys {
			ks = append(ks, k)
		}
		sort.Strings(ks)
		for _, k := range ks {
			fv.heapGet(st, k)
			fv.heapHavoc(st, k)
		}
		na := fv.q.fresh("alloc.l")
		fv.q.declareConst(na, "Int")
		fv.q.assume("(>= " + na + " " + st.alloc + ")")
		st.alloc = na
	}
	fv.havocSeenAtHead(h, st)
	for _, in := range h.Instrs {
		phi, ok := in.(*ssa.Phi)
		if !ok {
			break
		}
		name := phi.Comment
		if name == "" {
			name = phi.Name()
		}
		fv.env[phi] = fv.freshVal("loop."+name, phi.Type(), st)
	}
	// assume invariant on the havoc'd state
	names = fv.namesAt(h, st)
	ce = fv.newCEnv(names, st, fv.entry)
	for _, c := range ls.Invariants {
		for _, part := range ce.evalClause(c) {
			fv.q.assume("(=> " + reach + " " + part.term + ")")
		}
	}
	if ls.Decreases != nil {
		v := ce.mustEval(ls.Decreases)
		if fv.decVals == nil {
			fv.decVals = map[*ssa.BasicBlock]Val{}
		}
		fv.decVals[h] = v
	}
}


func (fv *FnVerifier) closeLoop(p, h *ssa.BasicBlock, st *State) {
	ls := fv.loopSpec(h)
	ord := fv.loopHeads[h]
	cond := fv.edgeCond[[2]*ssa.BasicBlock{p, h}]
	// bind phis to their incoming values along this edge
	saved := map[*ssa.Phi]Val{}
	for _, in := range h.Instrs {
		phi, ok := in.(*ssa.Phi)
		if !ok {
			break
		}
		saved[phi] = fv.env[phi]
	}
	var oldDec Val
	hasDec := false
	if d, ok := fv.decVals[h]; ok {
		oldDec, hasDec = d, true
	}
	for phi := range saved {
		for j, bp := range h.Preds {
			if bp == p {
				fv.env[phi] = fv.value(phi.Edges[j], st)
			}
		}
	}
	names := fv.namesAt(h, st)
	ce := fv.newCEnv(names, st, fv.entry)
	for _, c := range ls.Invariants {
		for _, part := range ce.evalClause(c) {
			fv.oblige("inv-keep", fmt.Sprintf("loop%d:%s", ord, part.label), cond, part.term, token.NoPos, c.Src)
		}
	}
	if hasDec {
		nv := ce.mustEval(ls.Decreases)
		zero := fv.mode.idx(0)
		goal := "(and " + fv.mode.cmp("<", nv.S, oldDec.S, true) + " " + fv.mode.cmp("<=", zero, oldDec.S, true) + ")"
		fv.oblige("decreases", fmt.Sprintf("loop%d", ord), cond, goal, token.NoPos, "variant decreases and is bounded below")
	}
	for phi, v := range saved {
		fv.env[phi] = v
	}
}

// ---------------------------------------------------------------------------------------------
// Return: postconditions

func (fv *FnVerifier) atReturn(r *ssa.Return, st *State) {
	fv.retCount++
	reach := fv.reach[fv.curBlock]
	names := map[string]Val{}
	for k, v := range fv.names {
		names[k] = v
	}
	var retVals []Val
	postSnap := st.clone()
	for i, res := range r.Results {
		v := fv.value(res, st)
		if v.IsNil {
			v = Val{T: fv.fn.Signature.Results().At(i).Type(), S: fv.zeroOf(fv.fn.Signature.Results().At(i).Type())}
		}
		if v.Addr != nil {
			unsupported("returning interior pointer")
		}
		retVals = append(retVals, v)
		if i < len(fv.fc.Results) {
			names[fv.fc.Results[i].Name] = v
		}
		// source-named results too
		if rv := fv.fn.Signature.Results().At(i); rv.Name() != "" && rv.Name() != "_" {
			if _, ok := names[rv.Name()]; !ok {
				names[rv.Name()] = v
			}
		}
	}
	fv.probe("cover", fmt.Sprintf("ret%d", fv.retCount), reach)
	ce := fv.newCEnv(names, st, fv.entry)
	for _, c := range fv.fc.Ensures {
		if c.Assumed {
			fv.note("assumed post-condition (ensures_assumed, not checked against the body): " + fv.fnShort + ": " + c.Label)
			continue
		}
		for _, part := range ce.evalClause(c) {
			o := fv.oblige("post", part.label, reach, part.term, r.Pos(), c.Src)
			o.Ctx.post = postSnap
			o.Ctx.results = retVals
		}
	}
	// locks released as at entry
	for k, v := range st.locks {
		want := "0"
		if e, ok := fv.entry.locks[k]; ok {
			want = e
		}
		if v != want {
			fv.oblige("lock", "balanced:"+k, reach, "(= "+v+" "+want+")", r.Pos(), "lock state at return differs from entry")
		}
	}
}
