package main

import (
	"fmt"
	"os"
	"go/types"

	"golang.org/x/tools/go/packages"
	"golang.org/x/tools/go/ssa"
	"golang.org/x/tools/go/ssa/ssautil"
)

func main() {
	cfg := &packages.Config{Mode: packages.LoadSyntax, Dir: "/repo", BuildFlags: []string{"-tags=verif"}}
	pkgs, err := packages.Load(cfg, os.Args[1])
	if err != nil {
		panic(err)
	}
	prog, spkgs := ssautil.Packages(pkgs, ssa.GlobalDebug)
	_ = prog
	for _, p := range spkgs {
		p.Build()
		for _, m := range p.Members {
			if f, ok := m.(*ssa.Function); ok && f.Name() == os.Args[2] {
				f.WriteTo(os.Stdout)
			}
		}
		if len(os.Args) > 3 {
			t := p.Type(os.Args[3])
			ms := prog.MethodSets.MethodSet(t.Type())
			_ = ms
			pt := t.Type()
			for i := 0; i < prog.MethodSets.MethodSet(ptrTo(pt)).Len(); i++ {
				sel := prog.MethodSets.MethodSet(ptrTo(pt)).At(i)
				if sel.Obj().Name() == os.Args[2] {
					prog.MethodValue(sel).WriteTo(os.Stdout)
				}
			}
		}
	}
	fmt.Println("done")
}

func ptrTo(t interface{ Underlying() types.Type }) types.Type { return types.NewPointer(t.(types.Type)) }
