package main

import (
	"encoding/json"
	"flag"
	"fmt"
	"go/types"
	"os"
	"path/filepath"
	"sort"
	"strconv"
	"strings"
	"time"

	"golang.org/x/tools/go/packages"
	"golang.org/x/tools/go/ssa"
	"golang.org/x/tools/go/ssa/ssautil"
)

var repoDir = envOr("GOVC_REPO", "/repo")
var verifDir = envOr("GOVC_VERIF", "/verif")

func envOr(k, d string) string {
	if v := os.Getenv(k); v != "" {
		return v
	}
	return d
}

type Spec struct {
	ID        string   `json:"id"`
	Packages  []string `json:"packages"`
	Functions []string `json:"functions"` // "<pkg rel path>#<Recv.Name|Name>"
	Lemmas    []string `json:"lemmas"`
	Level     string   `json:"level"`
	View      string   `json:"view"`      // contracts declared `viewfunc <view> ...` replace the plain contracts of the same functions in this check
	Unclaimed []string `json:"unclaimed"`// obligation names knowingly not discharged (reported as undecided, never as violations)
	Bounded   []BoundedSpec `json:"bounded"`
	MetaLemmas []string `json:"meta_lemmas"`
	Explanation string `json:"explanation"`
}

type BoundedSpec struct {
	Name    string `json:"name"`
	Pkg     string `json:"pkg"`     // package dir relative to /repo
	File    string `json:"file"`    // overlay test file under /verif/rac
	Run     string `json:"run"`     // -run regexp
	Bound   string `json:"bound"`   // human-readable bound
	StandsFor string `json:"stands_for"`
}

func loadSpec(id string) (*Spec, error) {
	data, err := os.ReadFile(filepath.Join(verifDir, "specs", id+".json"))
	if err != nil {
		return nil, err
	}
	var s Spec
	if err := json.Unmarshal(data, &s); err != nil {
		return nil, fmt.Errorf("spec %s: %v", id, err)
	}
	return &s, nil
}

func loadEngine(pkgPatterns []string, overlay map[string][]byte) (*Engine, map[string]*ssa.Package, error) {
	os.Setenv("GOFLAGS", "-mod=mod")
	os.Setenv("GOPROXY", "off")
	os.Setenv("GOSUMDB", "off")
	os.Setenv("GOTOOLCHAIN", "local")
	cfg := &packages.Config{Mode: packages.LoadSyntax, Dir: repoDir, BuildFlags: []string{"-tags=verif"}, Overlay: overlay}
	pkgs, err := packages.Load(cfg, pkgPatterns...)
	if err != nil {
		return nil, nil, err
	}
	for _, p := range pkgs {
		if len(p.Errors) > 0 {
			return nil, nil, fmt.Errorf("package %s: %v", p.PkgPath, p.Errors[0])
		}
	}
	prog, spkgs := ssautil.Packages(pkgs, ssa.GlobalDebug)
	byPath := map[string]*ssa.Package{}
	for _, sp := range spkgs {
		if sp != nil {
			sp.Build()
			byPath[sp.Pkg.Path()] = sp
		}
	}
	cs, err := LoadContracts(repoDir)
	if err != nil {
		return nil, nil, err
	}
	applyView(cs, gView)
	eng := &Engine{prog: prog, fset: prog.Fset, cs: cs, srcCache: map[string][]byte{}, globalsRO: map[*ssa.Global]bool{}, typeTags: map[string]int{}, notes: map[string]bool{}}
	return eng, byPath, nil
}

func findFunction(prog *ssa.Program, sp *ssa.Package, key string) *ssa.Function {
	if i := strings.Index(key, "."); i >= 0 {
		tn, mn := key[:i], key[i+1:]
		m := sp.Members[tn]
		t, ok := m.(*ssa.Type)
		if !ok {
			return nil
		}
		for _, typ := range []types.Type{types.NewPointer(t.Type()), t.Type()} {
			ms := prog.MethodSets.MethodSet(typ)
			for i := 0; i < ms.Len(); i++ {
				if ms.At(i).Obj().Name() == mn {
					f := prog.MethodValue(ms.At(i))
					if f != nil && f.Synthetic == "" {
						return f
					}
				}
			}
		}
		return nil
	}
	if f, ok := sp.Members[key].(*ssa.Function); ok {
		return f
	}
	return nil
}

type knownFinding struct {
	prop, obligation, what string
}

func loadKnownFindings() []knownFinding {
	data, err := os.ReadFile(filepath.Join(verifDir, "known_findings.txt"))
	if err != nil {
		return nil
	}
	var out []knownFinding
	for _, l := range strings.Split(string(data), "\n") {
		l = strings.TrimSpace(l)
		if !strings.HasPrefix(l, "finding:") {
			continue
		}
		var kf knownFinding
		rest := strings.TrimSpace(strings.TrimPrefix(l, "finding:"))
		for _, f := range strings.Fields(rest) {
			if strings.HasPrefix(f, "property=") {
				kf.prop = strings.TrimPrefix(f, "property=")
			} else if strings.HasPrefix(f, "obligation=") {
				kf.obligation = strings.TrimPrefix(f, "obligation=")
			}
		}
		if i := strings.Index(rest, " :: "); i >= 0 {
			kf.what = rest[i+4:]
		}
		out = append(out, kf)
	}
	return out
}

func loadBaseline(id string) map[string]bool {
	data, err := os.ReadFile(filepath.Join(verifDir, "baseline", id+".obligations"))
	if err != nil {
		return nil
	}
	m := map[string]bool{}
	for _, l := range strings.Split(string(data), "\n") {
		l = strings.TrimSpace(l)
		if l != "" && !strings.HasPrefix(l, "#") {
			m[l] = true
		}
	}
	return m
}

type checkResult struct {
	spec        *Spec
	results     []*FnResult
	obligations []*Obligation
	errors      []string
	bounded     []boundedResult
	lost        []string // violation lines for functions whose baseline obligations can no longer be generated
	solverTime  float64
	wall        float64
}

func main() {
	if len(os.Args) < 2 {
		fmt.Println("usage: govc check|baseline|dump|replay ...")
		os.Exit(2)
	}
	ensureModels2()
	switch os.Args[1] {
	case "check", "baseline":
		fs := flag.NewFlagSet("check", flag.ExitOnError)
		prop := fs.String("prop", "", "property id")
		tier := fs.String("tier", "", "quick|thorough")
		verbose := fs.Bool("v", false, "verbose")
		fs.Parse(os.Args[2:])
		if *tier == "" {
			*tier = os.Getenv("VERIF_TIER")
		}
		if *tier == "" {
			*tier = "quick"
		}
		os.Exit(cmdCheck(*prop, *tier, os.Args[1] == "baseline", *verbose))
	case "selftest":
		fs := flag.NewFlagSet("selftest", flag.ExitOnError)
		prop := fs.String("prop", "", "property id")
		fs.Parse(os.Args[2:])
		os.Exit(cmdSelftest(*prop, false))
	case "dump":
		cmdDump(os.Args[2:])
	case "replay":
		os.Exit(cmdReplay(os.Args[2:]))
	default:
		fmt.Println("unknown command")
		os.Exit(2)
	}
}

func cmdDump(args []string) {
	eng, pk, err := loadEngine([]string{args[0]}, nil)
	if err != nil {
		fmt.Println("ERROR", err)
		os.Exit(2)
	}
	for _, sp := range pk {
		if f := findFunction(eng.prog, sp, args[1]); f != nil {
			f.WriteTo(os.Stdout)
		}
	}
}

func cmdCheck(id, tier string, writeBaseline, verbose bool) int {
	start := time.Now()
	seed := 0
	if s := os.Getenv("VERIF_SEED"); s != "" {
		seed, _ = strconv.Atoi(s)
	}
	spec, err := loadSpec(id)
	if err != nil {
		fmt.Println("ERROR", err)
		return 2
	}
	outDir := filepath.Join(verifDir, "out", id)
	os.RemoveAll(outDir)
	os.MkdirAll(outDir, 0o755)
	cr := &checkResult{spec: spec}
	// wall-clock budgets per obligation; claimed obligations normally discharge in well under a second, the margin only
	// protects against a loaded machine (a timeout of a baseline obligation would be reported as a violation)
	timeout := 30
	confirm := false
	if tier == "thorough" {
		timeout = 120
		confirm = true
	}
	if v := os.Getenv("GOVC_TIMEOUT"); v != "" {
		if n, err := strconv.Atoi(v); err == nil && n > 0 {
			timeout = n
		}
	}
	for _, kf := range loadKnownFindings() {
		if kf.prop == id {
			gShortTimeout[kf.obligation] = true
		}
	}
	for _, u := range spec.Unclaimed {
		gShortTimeout[u] = true
	}
	var eng *Engine
	if len(spec.Functions) > 0 || len(spec.Lemmas) > 0 {
		var pk map[string]*ssa.Package
		gView = spec.View
		eng, pk, err = loadEngine(spec.Packages, gOverlay)
		if err != nil {
			fmt.Println("ERROR loading packages:", err)
			if gSelftest {
				cr.errors = append(cr.errors, "does not compile: "+err.Error())
				gLastResult = cr
			}
			return 2
		}
		for _, fkey := range spec.Functions {
			parts := strings.SplitN(fkey, "#", 2)
			pkgPath := repoModule + "/" + parts[0]
			sp := pk[pkgPath]
			if sp == nil {
				cr.errors = append(cr.errors, "package not loaded: "+pkgPath)
				continue
			}
			fn := findFunction(eng.prog, sp, parts[1])
			if fn == nil {
				// a function whose obligations are in the baseline disappeared: its proved obligations are lost
				short := parts[0][strings.LastIndex(parts[0], "/")+1:] + "." + parts[1]
				nBase := 0
				for n := range loadBaseline(id) {
					if strings.HasPrefix(n, short+"#") {
						nBase++
					}
				}
				if nBase > 0 && !gSelftest {
					p := filepath.Join(outDir, "replay_"+sanitizeFile(short)+"--missing.txt")
					os.WriteFile(p, []byte(fmt.Sprintf("property: %s\nfunction: %s\n%d obligations of this function were discharged on the baseline; the function no longer exists, so the contract it carried (and that its callers rely on) is no longer established\n", id, fkey, nBase)), 0o644)
					cr.lost = append(cr.lost, fmt.Sprintf("VIOLATION property=%s replay=%s no-failing-input-found", id, p))
					fmt.Printf("FAILED %d baseline obligations of %s can no longer be established: function removed or renamed\n", nBase, fkey)
				} else {
					cr.errors = append(cr.errors, "function under contract not found: "+fkey)
				}
				continue
			}
			fc := eng.cs.Funcs[pkgPath+"#"+parts[1]]
			if fc == nil {
				cr.errors = append(cr.errors, "no contract for "+fkey)
				continue
			}
			if fc.Trusted {
				cr.results = append(cr.results, &FnResult{Fn: shortFnName(fn), Trusted: true, Query: NewQuery(Mode{})})
				continue
			}
			res := eng.VerifyFunction(fn, fc)
			cr.results = append(cr.results, res)
			if res.Unsupported != "" {
				// obligations of this function that were discharged on the baseline can no longer be established
				nBase := 0
				for n := range loadBaseline(id) {
					if strings.HasPrefix(n, res.Fn+"#") {
						nBase++
					}
				}
				if nBase > 0 && !gSelftest {
					p := filepath.Join(outDir, "replay_"+sanitizeFile(res.Fn)+"--unverifiable.txt")
					os.WriteFile(p, []byte(fmt.Sprintf("property: %s\nfunction: %s\n%d obligations of this function were discharged on the baseline and can no longer be established:\nthe function (or its loop structure) changed so that the contract no longer applies: %s\n", id, fkey, nBase, res.Unsupported)), 0o644)
					cr.lost = append(cr.lost, fmt.Sprintf("VIOLATION property=%s replay=%s no-failing-input-found", id, p))
					fmt.Printf("FAILED %d baseline obligations of %s can no longer be established: %s\n", nBase, fkey, res.Unsupported)
				} else {
					cr.errors = append(cr.errors, fmt.Sprintf("function %s outside the verifier's subset: %s", fkey, res.Unsupported))
				}
				continue
			}
			dischargeAll(res.Query, filepath.Join(outDir, sanitizeFile(res.Fn)), timeout, confirm, 16)
			cr.obligations = append(cr.obligations, res.Query.obls...)
		}
		for _, lk := range spec.Lemmas {
			parts := strings.SplitN(lk, "#", 2)
			lem := eng.cs.Lemmas[repoModule+"/"+parts[0]+"#"+parts[1]]
			if lem == nil {
				cr.errors = append(cr.errors, "lemma not found: "+lk)
				continue
			}
			res := eng.VerifyLemma(lem, pk[repoModule+"/"+parts[0]])
			cr.results = append(cr.results, res)
			if res.Unsupported != "" {
				cr.errors = append(cr.errors, fmt.Sprintf("lemma %s: %s", lk, res.Unsupported))
				continue
			}
			dischargeAll(res.Query, filepath.Join(outDir, "lemma_"+sanitizeFile(lem.Name)), timeout, confirm, 16)
			cr.obligations = append(cr.obligations, res.Query.obls...)
		}
	}
	if gSelftest {
		gLastResult = cr
		return 0
	}
	for _, b := range spec.Bounded {
		cr.bounded = append(cr.bounded, runBounded(id, b, tier, seed, outDir))
	}
	cr.wall = time.Since(start).Seconds()
	return report(cr, id, tier, seed, outDir, writeBaseline, verbose)
}

func report(cr *checkResult, id, tier string, seed int, outDir string, writeBaseline, verbose bool) int {
	spec := cr.spec
	baseline := loadBaseline(id)
	known := map[string]knownFinding{}
	for _, kf := range loadKnownFindings() {
		if kf.prop == id {
			known[kf.obligation] = kf
		}
	}
	unclaimed := map[string]bool{}
	for _, u := range spec.Unclaimed {
		unclaimed[u] = true
	}
	var discharged, failed, undecided, probesBad []*Obligation
	nProbe := 0
	// second chance for baseline obligations that ran out of time (a loaded machine): few at a time, three times the budget.
	// Only `sat` answers and repeated failures become violations.
	if baseline != nil && !writeBaseline {
		retryTimedOut(cr, baseline, known, unclaimed, tier)
	}
	for _, o := range cr.obligations {
		cr.solverTime += o.Time
		if o.ExpectSat {
			nProbe++
			if o.Status != "sat" {
				// unknown on a probe is tolerated (quantifiers); unsat is a vacuity error
				if o.Status == "unsat" {
					if o.Kind == "cover" {
						// an unreachable return (e.g. the `if check.IfNil(receiver)` guard under the implicit
						// non-nil receiver precondition) is reported, not an error; a contradictory
						// precondition is caught by pre-sat
						fmt.Printf("NOTE: return never reached under the contract's precondition: %s\n", o.Name)
					} else {
						probesBad = append(probesBad, o)
					}
				}
			}
			continue
		}
		switch {
		case o.Status == "unsat":
			discharged = append(discharged, o)
		case unclaimed[o.Name]:
			undecided = append(undecided, o)
		default:
			failed = append(failed, o)
		}
	}
	if writeBaseline {
		var names []string
		slow := 0
		for _, o := range discharged {
			// claim only what discharges well under the quick budget: slower obligations are reported as
			// undecided when they fail, never as violations
			if o.Time > baselineMaxSecs() {
				slow++
				continue
			}
			names = append(names, o.Name)
		}
		if slow > 0 {
			fmt.Printf("baseline: %d discharged obligations took more than %.0fs and are not claimed\n", slow, baselineMaxSecs())
		}
		sort.Strings(names)
		os.MkdirAll(filepath.Join(verifDir, "baseline"), 0o755)
		os.WriteFile(filepath.Join(verifDir, "baseline", id+".obligations"), []byte(strings.Join(names, "\n")+"\n"), 0o644)
		fmt.Printf("baseline written: %d obligations\n", len(names))
	}
	exit := 0
	var violations []string
	var knownHit []string
	for _, o := range failed {
		if kf, ok := known[o.Name]; ok {
			knownHit = append(knownHit, fmt.Sprintf("KNOWN-FINDING: property=%s %s (obligation %s, %s)", id, kf.what, o.Name, o.Status))
			continue
		}
		inBase := baseline == nil || baseline[o.Name]
		if o.Status == "sat" || inBase {
			path := writeReplay(id, o, outDir)
			line := fmt.Sprintf("VIOLATION property=%s replay=%s", id, path.path)
			if !path.reproduced {
				line += " no-failing-input-found"
			}
			violations = append(violations, line)
			fmt.Printf("FAILED obligation %s [%s by %s] at %s: %s\n", o.Name, o.Status, o.Solver, o.Pos, o.Detail)
		} else {
			undecided = append(undecided, o)
		}
	}
	// known findings that no longer fail are reported (not an error)
	for name, kf := range known {
		if strings.HasPrefix(name, "bounded:") {
			continue // findings of bounded stand-ins are reported further down
		}
		still := false
		for _, o := range failed {
			if o.Name == name {
				still = true
			}
		}
		if !still {
			fmt.Printf("NOTE: listed finding no longer fails: %s (%s)\n", name, kf.what)
		}
	}
	// baseline obligations that disappeared => the check is broken (renamed function etc.), not a violation
	if baseline != nil {
		seen := map[string]bool{}
		for _, o := range cr.obligations {
			seen[o.Name] = true
		}
		var missing []string
		for n := range baseline {
			if !seen[n] {
				missing = append(missing, n)
			}
		}
		sort.Strings(missing)
		if len(missing) > 0 && len(cr.errors) == 0 {
			// an obligation can legitimately vanish when the code no longer contains the risky operation; report only
			fmt.Printf("NOTE: %d baseline obligations no longer generated (e.g. %s)\n", len(missing), missing[0])
		}
	}
	violations = append(violations, cr.lost...)
	for _, b := range cr.bounded {
		if b.failed {
			violations = append(violations, fmt.Sprintf("VIOLATION property=%s replay=%s", id, b.replay))
		} else if b.known {
			// the stand-in recognised the specific listed failure (and nothing else failed): known finding `bounded:<name>`
			if kf, ok := known["bounded:"+b.spec.Name]; ok {
				knownHit = append(knownHit, fmt.Sprintf("KNOWN-FINDING: property=%s %s (bounded stand-in %s)", id, kf.what, b.spec.Name))
			} else {
				violations = append(violations, fmt.Sprintf("VIOLATION property=%s replay=%s", id, filepath.Join(outDir, "bounded_"+sanitizeFile(b.spec.Name)+".log")))
			}
		}
		if b.err != "" {
			cr.errors = append(cr.errors, "bounded "+b.spec.Name+": "+b.err)
		}
	}
	for _, o := range probesBad {
		cr.errors = append(cr.errors, "vacuity probe failed (contradictory assumptions): "+o.Name)
	}
	for _, l := range knownHit {
		fmt.Println(l)
	}
	for _, v := range violations {
		fmt.Println(v)
		exit = 1
	}
	if len(cr.errors) > 0 {
		for _, e := range cr.errors {
			fmt.Println("ERROR", e)
		}
		if exit == 0 {
			exit = 2
		}
	}
	if verbose {
		for _, o := range cr.obligations {
			fmt.Printf("  %-8s %-8s %6.2fs %s\n", o.Status, o.Solver, o.Time, o.Name)
		}
	}
	writeEvidence(cr, id, tier, seed, discharged, failed, undecided, nProbe, len(violations), knownHit)
	fmt.Printf("%s: %d obligations, %d discharged, %d known-finding, %d violations, %d undecided, %d probes; functions %d; wall %.1fs\n",
		id, len(discharged)+len(failed)+len(undecided)-countDup(failed, undecided), len(discharged), len(knownHit), len(violations), len(undecided), nProbe, len(cr.results), cr.wall)
	return exit
}

func countDup(a, b []*Obligation) int {
	m := map[*Obligation]bool{}
	for _, x := range a {
		m[x] = true
	}
	n := 0
	for _, x := range b {
		if m[x] {
			n++
		}
	}
	return n
}

type replayInfo struct {
	path       string
	reproduced bool
}

func writeReplay(id string, o *Obligation, outDir string) replayInfo {
	p := filepath.Join(outDir, "replay_"+sanitizeFile(o.Name)+".txt")
	var b strings.Builder
	fmt.Fprintf(&b, "property: %s\nobligation: %s\nkind: %s\nposition: %s\ndetail: %s\nstatus: %s (solver %s, %.2fs)\nsmt file: %s\n\n--- solver output ---\n%s\n",
		id, o.Name, o.Kind, o.Pos, o.Detail, o.Status, o.Solver, o.Time, o.File, o.Model)
	os.WriteFile(p, []byte(b.String()), 0o644)
	ri := replayInfo{path: p}
	if o.Status == "sat" {
		if rp, ok := tryReplay(id, o, outDir); ok {
			ri.path = rp
			ri.reproduced = true
		}
	}
	return ri
}

func writeEvidence(cr *checkResult, id, tier string, seed int, discharged, failed, undecided []*Obligation, nProbe, nViol int, knownHit []string) {
	level := cr.spec.Level
	if level == "" {
		level = "proof"
	}
	var fns []string
	trusted := map[string]bool{}
	var notes []string
	for _, r := range cr.results {
		fns = append(fns, r.Fn+" ["+r.Mode+"]")
		for _, n := range r.Notes {
			if !trusted[n] {
				trusted[n] = true
				notes = append(notes, n)
			}
		}
	}
	sort.Strings(notes)
	per := []map[string]interface{}{}
	bySolver := map[string]int{}
	for _, o := range cr.obligations {
		if o.ExpectSat {
			continue
		}
		per = append(per, map[string]interface{}{"name": o.Name, "status": o.Status, "solver": o.Solver, "time_s": round3(o.Time), "pos": o.Pos})
		if o.Status == "unsat" {
			bySolver[o.Solver]++
		}
	}
	var samples []interface{}
	for i, o := range discharged {
		if i >= 3 {
			break
		}
		g := o.Goal
		if len(g) > 400 {
			g = g[:400] + "..."
		}
		samples = append(samples, map[string]interface{}{"obligation": o.Name, "goal_smt": g, "detail": o.Detail, "solver": o.Solver})
	}
	if len(samples) == 0 {
		samples = append(samples, "no SMT obligation in this run")
	}
	var und []string
	for _, o := range undecided {
		und = append(und, o.Name+" ["+o.Status+"]")
	}
	var bnd []interface{}
	evals := 0
	for _, b := range cr.bounded {
		bnd = append(bnd, map[string]interface{}{"name": b.spec.Name, "bound": b.spec.Bound, "stands_for": b.spec.StandsFor, "evaluations": b.evals, "failed": b.failed, "wall_s": round3(b.wall)})
		evals += b.evals
	}
	tb := append([]string{}, notes...)
	for _, ml := range cr.spec.MetaLemmas {
		tb = append(tb, "meta-lemma (mathematics, assumed): "+ml)
	}
	tb = append(tb, "solvers: z3 4.8.12, z3-new 5.1.0, cvc5 1.0.3 (first definite answer; thorough tier confirms with a second solver)",
		"govc VC generator (go/ssa -> SMT-LIB): integers modelled exactly modulo 2^n; logging calls dropped")
	cov := map[string]interface{}{
		// claimed obligations: discharged ones plus those reported as violations on this run; obligations listed as known
		// findings or as knowingly undecided are reported separately below and are never counted as proved
		"obligations":              len(discharged) + nViol,
		"not_discharged_known_findings": len(knownHit),
		"not_discharged_unclaimed":      len(undecided),
		"discharged":               len(discharged),
		"checker_cmd":              fmt.Sprintf("/verif/bin/govc check --prop %s --tier %s", id, tier),
		"trusted_base":             tb,
		"functions_under_contract": fns,
		"per_obligation":           per,
		"discharged_by_solver":     bySolver,
		"solver_time_s":            round3(cr.solverTime),
		"undecided":                und,
		"vacuity_probes":           nProbe,
		"bounded":                  bnd,
		"samples":                  samples,
		"known_findings_hit":       knownHit,
		"errors":                   cr.errors,
	}
	if level != "proof" {
		cov["explanation"] = cr.spec.Explanation
		cov["evaluations"] = evals
	}
	ev := map[string]interface{}{
		"property_id": id, "tier": tier, "seed": seed, "level": level, "coverage": cov,
		"assumptions": tb, "wall_s": round3(cr.wall), "violations": nViol,
	}
	os.MkdirAll(filepath.Join(verifDir, "evidence"), 0o755)
	data, _ := json.MarshalIndent(ev, "", " ")
	os.WriteFile(filepath.Join(verifDir, "evidence", id+".json"), data, 0o644)
}

func round3(f float64) float64 { return float64(int(f*1000+0.5)) / 1000 }
