package main

// Skolemisation of top-level universal goals: proving `forall k :: body` is proving `body` for fresh constants; the
// solvers answer `unknown` on some negated universals (arrays + MBQI) that are immediate once skolemised.

import (
	"os"
	"strings"
)

// skolemizeGoal rewrites "(forall ((n s) ...) body)" into body, declaring the bound names as constants.
func (fv *FnVerifier) skolemizeGoal(goal string) string {
	if os.Getenv("GOVC_NOSKOLEM") != "" {
		return goal
	}
	for i := 0; i < 4; i++ {
		g, ok := fv.skolemOnce(goal)
		if !ok {
			return goal
		}
		goal = g
	}
	return goal
}

// termEnd returns the index just after the term starting at s[i].
func termEnd(s string, i int) int {
	if i >= len(s) {
		return -1
	}
	if s[i] == '(' {
		e := matchParen(s, i)
		if e < 0 {
			return -1
		}
		return e + 1
	}
	j := i
	for j < len(s) && s[j] != ' ' && s[j] != ')' {
		if s[j] == '|' {
			k := strings.IndexByte(s[j+1:], '|')
			if k < 0 {
				return -1
			}
			j += k + 1
		}
		j++
	}
	return j
}

func (fv *FnVerifier) skolemOnce(goal string) (string, bool) {
	if strings.HasPrefix(goal, "(=> ") && strings.HasSuffix(goal, ")") {
		// (=> A B): skolemise B
		ae := termEnd(goal, 4)
		if ae < 0 || ae >= len(goal) || goal[ae] != ' ' {
			return goal, false
		}
		be := termEnd(goal, ae+1)
		if be != len(goal)-1 {
			return goal, false
		}
		b, ok := fv.skolemOnce(goal[ae+1 : be])
		if !ok {
			return goal, false
		}
		return goal[:ae+1] + b + ")", true
	}
	const pre = "(forall ("
	if !strings.HasPrefix(goal, pre) || !strings.HasSuffix(goal, ")") {
		return goal, false
	}
	// binder list starts at index len(pre)-1
	start := len(pre) - 1
	end := matchParen(goal, start)
	if end < 0 {
		return goal, false
	}
	binders := goal[start+1 : end]
	type bnd struct{ name, sort string }
	var bs []bnd
	p := 0
	for p < len(binders) {
		if binders[p] == ' ' {
			p++
			continue
		}
		if binders[p] != '(' {
			return goal, false
		}
		e := matchParen(binders, p)
		if e < 0 {
			return goal, false
		}
		inner := binders[p+1 : e]
		sp := strings.IndexByte(inner, ' ')
		if sp < 0 {
			return goal, false
		}
		bs = append(bs, bnd{inner[:sp], strings.TrimSpace(inner[sp+1:])})
		p = e + 1
	}
	body := strings.TrimSpace(goal[end+1 : len(goal)-1])
	if strings.HasPrefix(body, "(! ") {
		// strip the pattern annotation
		e := matchParen(body, 0)
		if e != len(body)-1 {
			return goal, false
		}
		in := strings.TrimSpace(body[3:e])
		// first term of the annotation
		if in == "" {
			return goal, false
		}
		if in[0] == '(' {
			te := matchParen(in, 0)
			if te < 0 {
				return goal, false
			}
			in = in[:te+1]
		} else {
			sp := strings.IndexByte(in, ' ')
			if sp > 0 {
				in = in[:sp]
			}
		}
		body = in
	}
	// the bound names must be unique in the query to become constants
	for _, b := range bs {
		if strings.ContainsAny(b.name, "|") {
			return goal, false
		}
		if !strings.Contains(b.name, "!") {
			return goal, false // only engine-generated (fresh) names are unique
		}
	}
	for _, b := range bs {
		fv.q.declareConst(b.name, b.sort)
	}
	return body, true
}

// matchParen returns the index of the parenthesis closing the one at s[i] (quoted |symbols| and strings are skipped).
func matchParen(s string, i int) int {
	depth := 0
	for j := i; j < len(s); j++ {
		switch s[j] {
		case '|':
			k := strings.IndexByte(s[j+1:], '|')
			if k < 0 {
				return -1
			}
			j += k + 1
		case '"':
			k := strings.IndexByte(s[j+1:], '"')
			if k < 0 {
				return -1
			}
			j += k + 1
		case '(':
			depth++
		case ')':
			depth--
			if depth == 0 {
				return j
			}
		}
	}
	return -1
}
