package main

// Counterexample replay. The solver's model is turned into concrete Go inputs; an in-package test (injected with
// `go test -overlay`, nothing is written into /repo) runs the REAL function on them and prints what it observes.
// The violation is confirmed when
//   - safety obligation (bounds/nil/div0/cast/panic): the real call panics;
//   - postcondition: every observed output (results, fields of the receiver/arguments after the call) equals the value the
//     model predicted for the failing return, i.e. the model is a faithful execution, so the clause the solver evaluated to
//     false on those values is false on the real code.
// Anything the generator cannot build (interface-typed inputs that are used, huge allocations) ends as no-failing-input-found.

import (
	"bytes"
	"encoding/json"
	"fmt"
	"go/types"
	"math/big"
	"os"
	"os/exec"
	"path/filepath"
	"sort"
	"strconv"
	"strings"

	"golang.org/x/tools/go/ssa"
)

type ReplayCtx struct {
	fv      *FnVerifier
	post    *State // state at the failing return (post obligations)
	results []Val
}

type obs struct {
	path string // Go expression (inputs: how to build; outputs: what to print)
	term string
	t    types.Type
	val  string // model value (decimal / true / false)
}

// ---------------------------------------------------------------------------------------------
// S-expressions

type sx struct {
	atom string
	list []*sx
}

func parseSx(s string) []*sx {
	var stack [][]*sx
	cur := []*sx{}
	i := 0
	for i < len(s) {
		c := s[i]
		switch {
		case c == '(':
			stack = append(stack, cur)
			cur = []*sx{}
			i++
		case c == ')':
			n := &sx{list: cur}
			if len(stack) == 0 {
				return cur
			}
			cur = stack[len(stack)-1]
			stack = stack[:len(stack)-1]
			cur = append(cur, n)
			i++
		case c == ' ' || c == '\n' || c == '\t' || c == '\r':
			i++
		case c == '|':
			j := strings.IndexByte(s[i+1:], '|')
			cur = append(cur, &sx{atom: s[i : i+j+2]})
			i += j + 2
		case c == '"':
			j := strings.IndexByte(s[i+1:], '"')
			cur = append(cur, &sx{atom: s[i : i+j+2]})
			i += j + 2
		default:
			j := i
			for j < len(s) && !strings.ContainsRune("() \n\t\r", rune(s[j])) {
				j++
			}
			cur = append(cur, &sx{atom: s[i:j]})
			i = j
		}
	}
	return cur
}

func (x *sx) String() string {
	if x.list == nil {
		return x.atom
	}
	var p []string
	for _, e := range x.list {
		p = append(p, e.String())
	}
	return "(" + strings.Join(p, " ") + ")"
}

// scalarValue converts a model value to decimal / true / false; floats to "fbits:<hex>".
func scalarValue(x *sx) (string, bool) {
	if x.list == nil {
		a := x.atom
		switch {
		case a == "true" || a == "false":
			return a, true
		case strings.HasPrefix(a, "#x"):
			n, ok := new(big.Int).SetString(a[2:], 16)
			return n.String(), ok
		case strings.HasPrefix(a, "#b"):
			n, ok := new(big.Int).SetString(a[2:], 2)
			return n.String(), ok
		default:
			if _, ok := new(big.Int).SetString(a, 10); ok {
				return a, true
			}
		}
		return "", false
	}
	l := x.list
	if len(l) == 2 && l[0].atom == "-" {
		v, ok := scalarValue(l[1])
		return "-" + v, ok
	}
	if len(l) == 3 && l[0].atom == "_" && strings.HasPrefix(l[1].atom, "bv") {
		return l[1].atom[2:], true
	}
	if len(l) == 4 && l[0].atom == "fp" {
		var bits string
		for _, p := range l[1:] {
			if strings.HasPrefix(p.atom, "#b") {
				bits += p.atom[2:]
			} else if strings.HasPrefix(p.atom, "#x") {
				n, _ := new(big.Int).SetString(p.atom[2:], 16)
				bits += fmt.Sprintf("%0*b", 4*len(p.atom[2:]), n)
			}
		}
		n, _ := new(big.Int).SetString(bits, 2)
		return "fbits:" + n.String(), true
	}
	if len(l) == 4 && l[0].atom == "_" {
		switch l[1].atom {
		case "+zero":
			return "fbits:0", true
		case "-zero":
			if l[3].atom == "53" {
				return "fbits:9223372036854775808", true
			}
			return "fbits:2147483648", true
		case "+oo":
			if l[3].atom == "53" {
				return "fbits:9218868437227405312", true
			}
		case "NaN":
			if l[3].atom == "53" {
				return "fbits:9221120237041090560", true
			}
		}
	}
	return "", false
}

// getValues appends get-value commands for terms to the obligation's query and returns model values.
func getValues(q *Query, o *Obligation, extra []string, terms []string, file string) (map[string]string, string) {
	var b strings.Builder
	base := q.render(o, false, extra)
	base = strings.Replace(base, "(set-logic ALL)", "(set-option :produce-models true)\n(set-logic ALL)", 1)
	b.WriteString(base)
	for _, t := range terms {
		b.WriteString("(get-value (" + t + "))\n")
	}
	os.WriteFile(file, []byte(b.String()), 0o644)
	var args []string
	switch o.Solver {
	case "cvc5":
		args = []string{"cvc5", "--produce-models", "--tlimit=20000", file}
	case "z3":
		args = []string{"z3", "-T:20", file}
	default:
		args = []string{"z3-new", "-T:20", file}
	}
	out, _ := exec.Command(args[0], args[1:]...).CombinedOutput()
	s := string(out)
	first := strings.TrimSpace(strings.SplitN(s, "\n", 2)[0])
	if first != "sat" {
		return nil, first
	}
	rest := strings.SplitN(s, "\n", 2)
	vals := map[string]string{}
	if len(rest) < 2 {
		return vals, first
	}
	items := parseSx(rest[1])
	k := 0
	for _, it := range items {
		// each item: ((term value))
		if it.list == nil || len(it.list) != 1 || len(it.list[0].list) != 2 {
			continue
		}
		if k >= len(terms) {
			break
		}
		if v, ok := scalarValue(it.list[0].list[1]); ok {
			vals[terms[k]] = v
		}
		k++
	}
	return vals, first
}

// ---------------------------------------------------------------------------------------------

type replayGen struct {
	fv     *FnVerifier
	q      *Query
	o      *Obligation
	extra  []string
	file   string
	decls  []string
	vals   map[string]string
	nvar   int
	bases  map[string]string // base ref value + elem type -> Go variable of the backing array
	fail   string
	imports map[string]bool
	topDecls []string
	pkg    *types.Package
	pre    *State
}

func (g *replayGen) ask(terms ...string) bool {
	var need []string
	for _, t := range terms {
		if _, ok := g.vals[t]; !ok {
			need = append(need, t)
		}
	}
	if len(need) == 0 {
		return true
	}
	vs, st := getValues(g.q, g.o, g.extra, need, g.file)
	if vs == nil {
		g.fail = "solver did not reproduce the model (" + st + ")"
		return false
	}
	for k, v := range vs {
		g.vals[k] = v
	}
	for _, t := range need {
		if _, ok := g.vals[t]; !ok {
			g.fail = "no scalar value for " + t
			return false
		}
	}
	return true
}

func (g *replayGen) newVar(prefix string) string {
	g.nvar++
	return fmt.Sprintf("%s%d", prefix, g.nvar)
}

func (g *replayGen) typeStr(t types.Type) string {
	return types.TypeString(t, func(p *types.Package) string {
		if p == g.pkg {
			return ""
		}
		g.imports[p.Path()] = true
		return p.Name()
	})
}

func goLit(v string, t types.Type) string {
	if strings.HasPrefix(v, "fbits:") {
		bits := strings.TrimPrefix(v, "fbits:")
		if b, _ := isFloat(t); b == 32 {
			return "math.Float32frombits(" + bits + ")"
		}
		return "math.Float64frombits(" + bits + ")"
	}
	if bt, ok := t.Underlying().(*types.Basic); ok && bt.Info()&types.IsInteger != 0 {
		bits, signed, _ := intInfo(t)
		n, _ := new(big.Int).SetString(v, 10)
		if n != nil && signed && n.Cmp(pow2(bits-1)) >= 0 {
			n.Sub(n, pow2(bits)) // bit-vector value of a signed integer
			v = n.String()
		}
	}
	return v
}

const maxReplayLen = 1 << 16

// build returns a Go expression constructing the input value of type t whose SMT term is `term` (entry state).
func (g *replayGen) build(term string, t types.Type, depth int) (string, bool) {
	fv := g.fv
	m := fv.mode
	if isOpaqueNamed(t) {
		return "", false
	}
	switch u := t.Underlying().(type) {
	case *types.Basic:
		switch {
		case u.Info()&types.IsString != 0:
			if !g.ask("(strlen " + term + ")") {
				return "", false
			}
			n, _ := strconv.Atoi(g.vals["(strlen "+term+")"])
			if n > maxReplayLen {
				g.fail = "model string too long"
				return "", false
			}
			var ts []string
			for i := 0; i < n; i++ {
				ts = append(ts, fmt.Sprintf("(select (sarr %s) %s)", term, m.idx(int64(i))))
			}
			if !g.ask(ts...) {
				return "", false
			}
			var bs []string
			for _, x := range ts {
				bs = append(bs, g.vals[x])
			}
			return g.typeStr(t) + "([]byte{" + strings.Join(bs, ",") + "})", true
		case u.Info()&(types.IsInteger|types.IsBoolean|types.IsFloat) != 0:
			if !g.ask(term) {
				return "", false
			}
			if u.Info()&types.IsFloat != 0 {
				g.imports["math"] = true
			}
			return g.typeStr(t) + "(" + goLit(g.vals[term], t) + ")", true
		}
		return "", false
	case *types.Slice:
		if _, ok := u.Elem().Underlying().(*types.Basic); !ok {
			// slices of non-basic elements: only nil / empty
			if !g.ask("(slen "+term+")", "(sbase "+term+")") {
				return "", false
			}
			if g.vals["(slen "+term+")"] == "0" {
				if g.vals["(sbase "+term+")"] == "0" {
					return "nil", true
				}
				return g.typeStr(t) + "{}", true
			}
			g.fail = "slice of " + u.Elem().String() + " in the model"
			return "", false
		}
		ts := []string{"(sbase " + term + ")", "(soff " + term + ")", "(slen " + term + ")", "(scap " + term + ")"}
		if !g.ask(ts...) {
			return "", false
		}
		base, off, ln, cp := g.vals[ts[0]], g.vals[ts[1]], g.vals[ts[2]], g.vals[ts[3]]
		if base == "0" {
			return "nil", true
		}
		o, _ := strconv.Atoi(off)
		l, _ := strconv.Atoi(ln)
		c, _ := strconv.Atoi(cp)
		if o+c > maxReplayLen || len(off) > 9 || len(cp) > 9 {
			g.fail = "model slice too large"
			return "", false
		}
		key := base + "/" + typeKey(u.Elem())
		bv, ok := g.bases[key]
		if !ok {
			bv = g.newVar("base")
			g.bases[key] = bv
			g.decls = append(g.decls, fmt.Sprintf("%s := make([]%s, %d)", bv, g.typeStr(u.Elem()), maxReplayLen))
		}
		// contents of [off, off+cap): whatever the model says (spare capacity matters for aliasing defects)
		k := fv.elemsKey(u.Elem())
		h := fv.heapGet(g.pre, k)
		limit := c
		if limit > 256 {
			limit = l
		}
		var es []string
		for i := 0; i < limit; i++ {
			es = append(es, fmt.Sprintf("(select (select %s (sbase %s)) %s)", h, term, idxAdd(m, "(soff "+term+")", m.idx(int64(i)))))
		}
		if !g.ask(es...) {
			return "", false
		}
		for i, e := range es {
			if g.vals[e] != "0" && g.vals[e] != "false" {
				g.decls = append(g.decls, fmt.Sprintf("%s[%d] = %s", bv, o+i, goLit(g.vals[e], u.Elem())))
			}
		}
		return fmt.Sprintf("%s[%d:%d:%d]", bv, o, o+l, o+c), true
	case *types.Pointer:
		if !g.ask(term) {
			return "", false
		}
		if g.vals[term] == "0" {
			return "nil", true
		}
		if isBigInt(u.Elem()) {
			bt := "(select " + fv.heapGet(g.pre, "big") + " " + term + ")"
			if !g.ask(bt) {
				return "", false
			}
			g.imports["math/big"] = true
			bkey := "bigptr/" + g.vals[term]
			if v, ok := g.bases[bkey]; ok {
				return v, true
			}
			v := g.newVar("big")
			g.bases[bkey] = v
			g.decls = append(g.decls, fmt.Sprintf("%s, _ := new(big.Int).SetString(%q, 10)", v, g.vals[bt]))
			return v, true
		}
		st, ok := u.Elem().Underlying().(*types.Struct)
		if !ok || depth > 2 {
			g.fail = "pointer to " + u.Elem().String() + " in the model"
			return "", false
		}
		key := "ptr/" + g.vals[term] + "/" + typeKey(u.Elem())
		if v, ok := g.bases[key]; ok {
			return v, true
		}
		v := g.newVar("obj")
		g.bases[key] = v
		g.decls = append(g.decls, fmt.Sprintf("%s := &%s{}", v, g.typeStr(u.Elem())))
		named, _ := u.Elem().(*types.Named)
		for i := 0; i < st.NumFields(); i++ {
			f := st.Field(i)
			if !f.Exported() && (named == nil || named.Obj().Pkg() != g.pkg) {
				continue
			}
			if isOpaqueNamed(f.Type()) {
				continue
			}
			fk := fv.fieldKey(u.Elem(), st, i)
			if used := g.q.declSeen["H."+sanitize(fk)+".e0"]; !used {
				continue // the function never touches this field
			}
			ft := "(select " + fv.heapGet(g.pre, fk) + " " + term + ")"
			switch f.Type().Underlying().(type) {
			case *types.Map, *types.Chan, *types.Signature, *types.Array:
				continue // left at the zero value; a use makes the replay diverge (reported as no-failing-input-found)
			}
			e, ok := g.build(ft, f.Type(), depth+1)
			if !ok {
				if g.fail != "" {
					return "", false
				}
				continue
			}
			g.decls = append(g.decls, fmt.Sprintf("%s.%s = %s", v, f.Name(), e))
		}
		return v, true
	case *types.Interface:
		if !g.ask("(itag " + term + ")") {
			return "", false
		}
		if g.vals["(itag "+term+")"] == "0" {
			return "nil", true
		}
		// stub implementing the interface: pure getters applied to this value return the model's values; any other method
		// of the embedded (nil) interface panics, which makes the replay diverge rather than lie
		if _, ok := t.(*types.Named); !ok {
			g.fail = "non-nil unnamed interface input"
			return "", false
		}
		stub := g.newVar("govcStub")
		var methods []string
		seen := map[string]bool{}
		for _, pa := range fv.pureApps {
			if seen[pa.obj.Name()] {
				continue
			}
			if pa.recv != term {
				eq := "(= " + pa.recv + " " + term + ")"
				if !g.ask(eq) {
					return "", false
				}
				if g.vals[eq] != "true" {
					continue
				}
			}
			seen[pa.obj.Name()] = true
			msig := pa.obj.Type().(*types.Signature)
			rt := msig.Results().At(0).Type()
			var mparams []string
			for pi := 0; pi < msig.Params().Len(); pi++ {
				mparams = append(mparams, "_ "+g.typeStr(msig.Params().At(pi).Type()))
			}
			nBefore := len(g.decls)
			savedBases := g.bases
			g.bases = map[string]string{}
			e, ok := g.build(pa.res.S, rt, depth+1)
			g.bases = savedBases
			if !ok {
				if g.fail == "" {
					g.fail = "cannot build the value returned by " + pa.obj.Name()
				}
				return "", false
			}
			body := append([]string{}, g.decls[nBefore:]...)
			g.decls = g.decls[:nBefore]
			methods = append(methods, fmt.Sprintf("func (s %s) %s(%s) %s {\n\t%s\n\treturn %s\n}\n", stub, pa.obj.Name(), strings.Join(mparams, ", "), g.typeStr(rt), strings.Join(body, "\n\t"), e))
		}
		g.topDecls = append(g.topDecls, fmt.Sprintf("type %s struct{ %s }\n\n%s", stub, g.typeStr(t), strings.Join(methods, "\n")))
		return stub + "{}", true
	case *types.Struct:
		name := g.typeStr(t)
		v := g.newVar("sv")
		g.decls = append(g.decls, fmt.Sprintf("var %s %s", v, name))
		named, _ := t.(*types.Named)
		if named != nil && named.Obj().Pkg() != nil && named.Obj().Pkg().Path() == atomicPkg && named.Obj().Name() == "Flag" {
			ft := "(" + fv.fieldAcc(t, u, 0) + " " + term + ")"
			if !g.ask(ft) {
				return "", false
			}
			if g.vals[ft] == "1" {
				g.decls = append(g.decls, v+".Set()")
			}
			return v, true
		}
		for i := 0; i < u.NumFields(); i++ {
			f := u.Field(i)
			if !f.Exported() && (named == nil || named.Obj().Pkg() != g.pkg) {
				continue
			}
			switch f.Type().Underlying().(type) {
			case *types.Interface, *types.Map, *types.Chan, *types.Signature, *types.Array:
				continue
			}
			e, ok := g.build("("+fv.fieldAcc(t, u, i)+" "+term+")", f.Type(), depth+1)
			if !ok {
				if g.fail != "" {
					return "", false
				}
				continue
			}
			g.decls = append(g.decls, fmt.Sprintf("%s.%s = %s", v, f.Name(), e))
		}
		return v, true
	}
	return "", false
}

type outObs struct {
	goExpr string // printed with %v after normalisation
	term   string
	kind   string // int, bool, nilness
}

// observe lists (Go expression, post-state SMT term) pairs for an output of type t.
func (g *replayGen) observe(goExpr, term string, t types.Type, st *State, depth int, out *[]outObs) {
	fv := g.fv
	if isOpaqueNamed(t) {
		return
	}
	switch u := t.Underlying().(type) {
	case *types.Basic:
		switch {
		case u.Info()&types.IsBoolean != 0:
			*out = append(*out, outObs{goExpr, term, "bool"})
		case u.Info()&types.IsInteger != 0:
			*out = append(*out, outObs{goExpr, term, "int"})
		case u.Info()&types.IsString != 0:
			*out = append(*out, outObs{"len(" + goExpr + ")", "(strlen " + term + ")", "int"})
		case u.Info()&types.IsFloat != 0:
			g.imports["math"] = true
			if b, _ := isFloat(t); b == 32 {
				*out = append(*out, outObs{"math.Float32bits(" + goExpr + ")", term, "float"})
			} else {
				*out = append(*out, outObs{"math.Float64bits(" + goExpr + ")", term, "float"})
			}
		}
	case *types.Interface:
		*out = append(*out, outObs{"(" + goExpr + " == nil)", "(= (itag " + term + ") 0)", "bool"})
	case *types.Slice:
		*out = append(*out, outObs{"len(" + goExpr + ")", "(slen " + term + ")", "int"})
	case *types.Pointer:
		if isBigInt(u.Elem()) {
			g.imports["math/big"] = true
			*out = append(*out, outObs{"bigStr(" + goExpr + ")", "(select " + fv.heapGet(st, "big") + " " + term + ")", "bigptr"})
			return
		}
		stt, ok := u.Elem().Underlying().(*types.Struct)
		if !ok || depth > 1 {
			return
		}
		named, _ := u.Elem().(*types.Named)
		for i := 0; i < stt.NumFields(); i++ {
			f := stt.Field(i)
			if !f.Exported() && (named == nil || named.Obj().Pkg() != g.pkg) {
				continue
			}
			fk := fv.fieldKey(u.Elem(), stt, i)
			if used := g.q.declSeen["H."+sanitize(fk)+".e0"]; !used {
				continue
			}
			switch f.Type().Underlying().(type) {
			case *types.Basic, *types.Slice:
				g.observe(goExpr+"."+f.Name(), "(select "+fv.heapGet(st, fk)+" "+term+")", f.Type(), st, depth+1, out)
			}
		}
	case *types.Struct:
		named, _ := t.(*types.Named)
		for i := 0; i < u.NumFields(); i++ {
			f := u.Field(i)
			if !f.Exported() && (named == nil || named.Obj().Pkg() != g.pkg) {
				continue
			}
			switch f.Type().Underlying().(type) {
			case *types.Basic, *types.Slice:
				g.observe(goExpr+"."+f.Name(), "("+fv.fieldAcc(t, u, i)+" "+term+")", f.Type(), st, depth+1, out)
			}
		}
	}
}

func tryReplay(id string, o *Obligation, outDir string) (string, bool) {
	ctx := o.Ctx
	if ctx == nil || ctx.fv == nil || ctx.fv.fn == nil {
		return "", false
	}
	safety := map[string]bool{"bounds": true, "nil": true, "div0": true, "cast": true, "panic": true}
	if o.Kind != "post" && !safety[o.Kind] {
		return "", false
	}
	fv := ctx.fv
	fn := fv.fn
	g := &replayGen{fv: fv, q: fv.q, o: o, vals: map[string]string{}, bases: map[string]string{}, imports: map[string]bool{"fmt": true, "testing": true},
		pkg: fn.Pkg.Pkg, pre: fv.entry, file: filepath.Join(outDir, "replay_"+sanitizeFile(o.Name)+".smt2")}
	// staged search for a small model: bound every slice/string parameter length
	var lenTerms []string
	for i, p := range fn.Params {
		switch p.Type().Underlying().(type) {
		case *types.Slice:
			lenTerms = append(lenTerms, "(scap "+fv.params[i].S+")", "(soff "+fv.params[i].S+")")
		case *types.Basic:
			if p.Type().Underlying().(*types.Basic).Info()&types.IsString != 0 {
				lenTerms = append(lenTerms, "(strlen "+fv.params[i].S+")")
			}
		}
	}
	for _, pa := range fv.pureApps {
		if _, ok := pa.res.T.Underlying().(*types.Slice); ok {
			lenTerms = append(lenTerms, "(scap "+pa.res.S+")", "(soff "+pa.res.S+")")
		}
	}
	// interface-typed inputs are replayed with synthesised stubs, so prefer models whose dynamic types are none of the
	// concrete types the code tests for
	var stubFriendly []string
	for i, p := range fn.Params {
		if _, ok := p.Type().Underlying().(*types.Interface); ok {
			for _, tag := range fv.eng.typeTags {
				stubFriendly = append(stubFriendly, fmt.Sprintf("(not (= (itag %s) %d))", fv.params[i].S, tag))
			}
		}
	}
	found := false
	for _, friendly := range []bool{true, false} {
		if friendly && len(stubFriendly) == 0 {
			continue
		}
		for _, bound := range []int64{4, 16, 256, 0} {
			g.extra = nil
			if friendly {
				g.extra = append(g.extra, stubFriendly...)
			}
			if bound > 0 {
				if len(lenTerms) == 0 {
					continue
				}
				for _, lt := range lenTerms {
					g.extra = append(g.extra, fv.mode.cmp("<=", lt, fv.mode.idx(bound), true))
				}
			}
			g.vals = map[string]string{}
			if vs, _ := getValues(g.q, o, g.extra, []string{"alloc0"}, g.file); vs != nil {
				found = true
				break
			}
		}
		if found {
			break
		}
	}
	if !found {
		return "", false
	}
	// inputs
	var args []string
	for i, p := range fn.Params {
		e, ok := g.build(fv.params[i].S, p.Type(), 0)
		if !ok {
			if g.fail == "" {
				g.fail = "cannot build input " + p.Name()
			}
			return replayNote(o, outDir, g.fail), false
		}
		args = append(args, e)
	}
	// call expression
	var call string
	nres := fn.Signature.Results().Len()
	if fn.Signature.Recv() != nil {
		call = fmt.Sprintf("%s.%s(%s)", args[0], fn.Name(), strings.Join(args[1:], ", "))
	} else {
		call = fmt.Sprintf("%s(%s)", fn.Name(), strings.Join(args, ", "))
	}
	var resNames []string
	for i := 0; i < nres; i++ {
		resNames = append(resNames, fmt.Sprintf("res%d", i))
	}
	// outputs
	var outs []outObs
	if o.Kind == "post" && ctx.post != nil {
		for i := 0; i < nres && i < len(ctx.results); i++ {
			g.observe(resNames[i], ctx.results[i].S, fn.Signature.Results().At(i).Type(), ctx.post, 0, &outs)
		}
		for i, p := range fn.Params {
			if _, ok := p.Type().Underlying().(*types.Pointer); ok && args[i] != "nil" {
				g.observe(args[i], fv.params[i].S, p.Type(), ctx.post, 0, &outs)
			}
		}
		var ts []string
		for _, ob := range outs {
			ts = append(ts, ob.term)
		}
		if !g.ask(ts...) {
			return replayNote(o, outDir, g.fail), false
		}
	}
	// render
	var b bytes.Buffer
	fmt.Fprintf(&b, "package %s\n\n// Replay of the counterexample for obligation %s (property %s).\n// Generated by govc from the solver model; runs the real code.\n\nimport (\n", fn.Pkg.Pkg.Name(), o.Name, id)
	var imps []string
	for p := range g.imports {
		imps = append(imps, p)
	}
	sort.Strings(imps)
	for _, p := range imps {
		fmt.Fprintf(&b, "\t%q\n", p)
	}
	b.WriteString(")\n\n")
	if g.imports["math/big"] {
		b.WriteString("func bigStr(x *big.Int) string {\n\tif x == nil {\n\t\treturn \"nil\"\n\t}\n\treturn x.String()\n}\n\n")
	}
	for _, d := range g.topDecls {
		b.WriteString(d + "\n")
	}
	b.WriteString("func TestGovcReplay(t *testing.T) {\n")
	for _, d := range g.decls {
		b.WriteString("\t" + d + "\n")
	}
	b.WriteString("\tfunc() {\n\t\tdefer func() {\n\t\t\tif r := recover(); r != nil {\n\t\t\t\tfmt.Printf(\"GOVC-PANIC %v\\n\", r)\n\t\t\t}\n\t\t}()\n")
	if nres > 0 {
		fmt.Fprintf(&b, "\t\t%s := %s\n", strings.Join(resNames, ", "), call)
		for _, r := range resNames {
			fmt.Fprintf(&b, "\t\t_ = %s\n", r)
		}
	} else {
		fmt.Fprintf(&b, "\t\t%s\n", call)
	}
	for i, ob := range outs {
		fmt.Fprintf(&b, "\t\tfmt.Printf(\"GOVC-OBS %d %%v\\n\", %s)\n", i, ob.goExpr)
	}
	b.WriteString("\t\tfmt.Println(\"GOVC-RETURNED\")\n\t}()\n}\n")
	testFile := filepath.Join(outDir, "replay_"+sanitizeFile(o.Name)+"_test.go")
	// header comment with expectations (used by `govc replay`)
	var exp []string
	for i, ob := range outs {
		exp = append(exp, fmt.Sprintf("%d=%s", i, normModel(g.vals[ob.term], ob.kind)))
	}
	pkgRel := strings.TrimPrefix(fn.Pkg.Pkg.Path(), repoModule+"/")
	hdr := fmt.Sprintf("// govc-replay pkg=%s kind=%s expect=%s\n// clause: %s\n", pkgRel, o.Kind, strings.Join(exp, ","), o.Detail)
	os.WriteFile(testFile, append([]byte(hdr), b.Bytes()...), 0o644)
	ok, log := execReplay(testFile)
	os.WriteFile(strings.TrimSuffix(testFile, "_test.go")+".log", []byte(log), 0o644)
	if ok {
		return testFile, true
	}
	return replayNote(o, outDir, "the model did not reproduce on the real code (see "+filepath.Base(testFile)+" and its .log)"), false
}

func normModel(v, kind string) string {
	if kind == "float" {
		return strings.TrimPrefix(v, "fbits:")
	}
	return v
}

func replayNote(o *Obligation, outDir, why string) string {
	p := filepath.Join(outDir, "replay_"+sanitizeFile(o.Name)+".txt")
	f, err := os.OpenFile(p, os.O_APPEND|os.O_WRONLY, 0o644)
	if err == nil {
		fmt.Fprintf(f, "\n--- replay ---\nno failing input produced: %s\n", why)
		f.Close()
	}
	return ""
}

// execReplay runs a generated replay test against /repo and decides whether the violation reproduced.
func execReplay(testFile string) (bool, string) {
	if abs, err := filepath.Abs(testFile); err == nil {
		testFile = abs
	}
	data, err := os.ReadFile(testFile)
	if err != nil {
		return false, err.Error()
	}
	first := strings.SplitN(string(data), "\n", 2)[0]
	var pkgRel, kind, expect string
	for _, f := range strings.Fields(first) {
		switch {
		case strings.HasPrefix(f, "pkg="):
			pkgRel = f[4:]
		case strings.HasPrefix(f, "kind="):
			kind = f[5:]
		case strings.HasPrefix(f, "expect="):
			expect = f[7:]
		}
	}
	if pkgRel == "" {
		return false, "not a govc replay file"
	}
	pkgDir := filepath.Join(repoDir, pkgRel)
	dir := filepath.Dir(testFile)
	ov := map[string]interface{}{"Replace": map[string]string{filepath.Join(pkgDir, "zz_govc_replay_test.go"): testFile}}
	ovData, _ := json.Marshal(ov)
	ovFile := strings.TrimSuffix(testFile, "_test.go") + ".overlay.json"
	os.WriteFile(ovFile, ovData, 0o644)
	tmp := filepath.Join(dir, "tmp.replay")
	os.MkdirAll(tmp, 0o755)
	defer os.RemoveAll(tmp)
	cmd := exec.Command("go", "test", "-overlay", ovFile, "-vet=off", "-count=1", "-timeout", "60s", "-run", "^TestGovcReplay$", "-v", ".")
	cmd.Dir = pkgDir
	cmd.Env = append(os.Environ(), "GOFLAGS=-mod=mod", "GOPROXY=off", "GOSUMDB=off", "GOTOOLCHAIN=local", "TMPDIR="+tmp)
	out, _ := cmd.CombinedOutput()
	s := string(out)
	safety := kind != "post"
	if safety {
		return strings.Contains(s, "GOVC-PANIC"), s
	}
	if !strings.Contains(s, "GOVC-RETURNED") {
		return false, s
	}
	got := map[string]string{}
	for _, l := range strings.Split(s, "\n") {
		if strings.HasPrefix(l, "GOVC-OBS ") {
			parts := strings.SplitN(strings.TrimPrefix(l, "GOVC-OBS "), " ", 2)
			if len(parts) == 2 {
				got[parts[0]] = strings.TrimSpace(parts[1])
			}
		}
	}
	if expect == "" {
		return false, s + "\n(no observable output to compare)"
	}
	for _, e := range strings.Split(expect, ",") {
		kv := strings.SplitN(e, "=", 2)
		if len(kv) != 2 {
			continue
		}
		want := kv[1]
		g := got[kv[0]]
		if g != want {
			// signed values: the model prints bit-vector values unsigned
			if wn, ok := new(big.Int).SetString(want, 10); ok {
				if gn, ok2 := new(big.Int).SetString(g, 10); ok2 {
					d := new(big.Int).Sub(wn, gn)
					if d.Sign() != 0 && (d.Cmp(pow2(64)) == 0 || d.Cmp(pow2(32)) == 0 || d.Cmp(pow2(16)) == 0 || d.Cmp(pow2(8)) == 0) {
						continue
					}
				}
			}
			return false, s + fmt.Sprintf("\nobservation %s: real code gives %q, model predicted %q", kv[0], g, want)
		}
	}
	return true, s
}

func runReplayTest(path string) int {
	ok, log := execReplay(path)
	fmt.Println(log)
	if ok {
		fmt.Println("REPRODUCED")
		return 1
	}
	fmt.Println("not reproduced")
	return 0
}

var _ = ssa.BuilderMode(0)
