package main

// Counterexample replay: render the solver's model as an in-package Go test and run it against the real code.

func tryReplay(id string, o *Obligation, outDir string) (string, bool) {
	return "", false
}

func runReplayTest(path string) int { return 0 }
