package main

// Monitor invariants: `lock_invariant <mutexField>: [label:] expr` on a struct. The invariant is assumed when the mutex
// field of an object is acquired (Lock/RLock) and must be proved before a write-locked section releases it (Unlock,
// also deferred). Callers therefore need not establish it. That it holds when the lock is FREE is the monitor discipline
// (constructors establish it; listed as an assumption).

import (
	"go/token"
	"go/types"
)

func (fv *FnVerifier) lockInvariant(st *State, a *Addr, assume bool, pos token.Pos) {
	if a == nil || a.Owner == nil || len(a.Path) != 0 {
		return
	}
	n, ok := a.Owner.(*types.Named)
	if !ok || n.Obj().Pkg() == nil {
		return
	}
	ss := fv.eng.cs.Structs[n.Obj().Pkg().Path()+"#"+n.Obj().Name()]
	if ss == nil || len(ss.LockInv[a.FieldName]) == 0 {
		return
	}
	self := Val{T: types.NewPointer(n), S: a.Ref}
	ce := fv.newCEnv(fv.names, st, fv.entry)
	reach := fv.reach[fv.curBlock]
	for _, c := range ss.LockInv[a.FieldName] {
		var term string
		func() {
			defer func() {
				if r := recover(); r != nil {
					if e, ok := r.(cevalErr); ok {
						panic(unsupportedErr{"lock_invariant `" + c.Src + "`: " + e.msg})
					}
					panic(r)
				}
			}()
			term = ce.evalInv(c, self)
		}()
		label := c.Label
		if label == "" {
			label = shortLabel(c.Src)
		}
		if assume {
			fv.q.assume("(=> " + reach + " " + term + ")")
			fv.note("monitor invariant of " + n.Obj().Name() + "." + a.FieldName + " assumed at lock acquisition: " + c.Src)
		} else {
			fv.oblige("lock-inv", label, reach, term, pos, "monitor invariant must hold when the write lock is released: "+c.Src)
		}
	}
}
