package main

// Pointers to slice elements used as values (`m[k] = &hdrs[i]`, `p := &s[i]; f(p)`).
// Such a pointer is encoded as a NEGATIVE reference (eref.T base idx) with inverses ebase.T / eidx.T; every access
// through a plain *T pointer p of such a type T reads/writes  ite(p < 0, the slice element, the heap object).
// Assumption (listed): *T pointers received from outside the function do not point into slice backing arrays.

import (
	"go/types"

	"golang.org/x/tools/go/ssa"
)

// prescanElemPtrs finds struct types T such that some &s[i] (s []T) escapes as a value in fn.
func (fv *FnVerifier) prescanElemPtrs() {
	fv.matTypes = map[string]types.Type{}
	for _, b := range fv.fn.Blocks {
		for _, in := range b.Instrs {
			ia, ok := in.(*ssa.IndexAddr)
			if !ok {
				continue
			}
			sl, ok := ia.X.Type().Underlying().(*types.Slice)
			if !ok {
				continue
			}
			if _, isStruct := sl.Elem().Underlying().(*types.Struct); !isStruct {
				continue
			}
			if refs := ia.Referrers(); refs != nil {
				for _, r := range *refs {
					switch u := r.(type) {
					case *ssa.UnOp:
						continue
					case *ssa.FieldAddr:
						continue
					case *ssa.Store:
						if u.Addr == ssa.Value(ia) {
							continue
						}
					case *ssa.DebugRef:
						continue
					}
					fv.matTypes[typeKey(sl.Elem())] = sl.Elem()
				}
			}
		}
	}
}

func (fv *FnVerifier) isMatType(t types.Type) bool {
	if len(fv.matTypes) == 0 {
		return false
	}
	_, ok := fv.matTypes[typeKey(t)]
	return ok
}

func (fv *FnVerifier) erefFuns(t types.Type) (eref, ebase, eidx string) {
	k := sanitize(typeKey(t))
	eref, ebase, eidx = "eref."+k, "ebase."+k, "eidx."+k
	fv.q.declareFun(eref, []string{"Int", fv.mode.idxSort()}, "Int")
	fv.q.declareFun(ebase, []string{"Int"}, "Int")
	fv.q.declareFun(eidx, []string{"Int"}, fv.mode.idxSort())
	return
}

// materialize turns the address of a slice element of struct type into a pointer value.
func (fv *FnVerifier) materialize(a *Addr) (string, bool) {
	if a.Glob || a.Idx == "" || len(a.Path) != 0 || a.Alt != nil || !fv.isMatType(a.T) {
		return "", false
	}
	eref, ebase, eidx := fv.erefFuns(a.T)
	p := fv.q.bind("eptr", "Int", "("+eref+" "+a.Ref+" "+a.Idx+")")
	fv.q.assume("(and (< " + p + " 0) (= (" + ebase + " " + p + ") " + a.Ref + ") (= (" + eidx + " " + p + ") " + a.Idx + "))")
	fv.note("model: pointers to slice elements (&s[i]) are encoded as element references; pointers received from outside are assumed not to point into slice backing arrays")
	return p, true
}

// dualFieldAddr: address of field `field` through plain pointer p to struct type pt that may be an element reference.
func (fv *FnVerifier) dualFieldAddr(main *Addr, p string, pt types.Type, stt *types.Struct, field int) *Addr {
	if !fv.isMatType(pt) {
		return main
	}
	_, ebase, eidx := fv.erefFuns(pt)
	alt := &Addr{Arr: fv.elemsKey(pt), Ref: "(" + ebase + " " + p + ")", Idx: "(" + eidx + " " + p + ")",
		Path: []PathEl{{Field: field, ST: stt, STName: pt}}, T: stt.Field(field).Type()}
	main.Alt = alt
	main.AltCond = "(< " + p + " 0)"
	return main
}
