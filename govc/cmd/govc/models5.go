package main

// sort.Sort / sort.Slice / sort.SliceStable / sort.Strings: the elements of the slice are permuted in place, nothing else
// is written. (Sortedness by Less is not modelled; the closure of sort.Slice is not executed.)

import (
	"fmt"
	"go/token"
	"go/types"

	"golang.org/x/tools/go/ssa"
)

func (fv *FnVerifier) frameUnknownCall(pos token.Pos, callee string) {
	if fv.fc != nil && fv.fc.AssignsOK && !fv.lemmaMode {
		fv.oblige("frame", "unknown-callee:"+callee, fv.reach[fv.curBlock], "false", pos,
			"call to a function without a frame (assigns clause) inside a function that has one: the frame cannot be established")
	}
}

func (fv *FnVerifier) permuteSlice(st *State, s string, elemT types.Type, pos token.Pos, name, what string) {
	m := fv.mode
	key := fv.elemsKey(elemT)
	isort := m.idxSort()
	esort := fv.sortOf(elemT)
	sN := fv.q.bind(name+".s", "Slice", s)
	fv.frameCheckKey(st, key, "(sbase "+sN+")", pos, "sort:"+what)
	old := fv.heapGet(st, key)
	oldRow := "(select " + old + " (sbase " + sN + "))"
	row := fv.q.fresh(name + ".row")
	fv.q.declareConst(row, "(Array "+isort+" "+esort+")")
	pi, piInv := fv.q.fresh("perm"), fv.q.fresh("perminv")
	fv.q.declareFun(pi, []string{isort}, isort)
	fv.q.declareFun(piInv, []string{isort}, isort)
	i := fv.q.fresh("i")
	in := func(x string) string {
		return "(and " + m.cmp("<=", m.idx(0), x, true) + " " + m.cmp("<", x, "(slen "+sN+")", true) + ")"
	}
	at := func(r, x string) string { return "(select " + r + " " + idxAdd(m, "(soff "+sN+")", x) + ")" }
	fv.q.assume(fmt.Sprintf("(forall ((%s %s)) (! (=> %s (and %s (= (%s (%s %s)) %s) (= %s %s))) :pattern ((%s %s))))",
		i, isort, in(i), in("("+pi+" "+i+")"), piInv, pi, i, i, at(row, i), at(oldRow, "("+pi+" "+i+")"), pi, i))
	fv.q.assume(fmt.Sprintf("(forall ((%s %s)) (! (=> %s (and %s (= (%s (%s %s)) %s))) :pattern ((%s %s))))",
		i, isort, in(i), in("("+piInv+" "+i+")"), pi, piInv, i, i, piInv, i))
	// the same facts stated on ABSOLUTE indexes, so that reads through re-sliced views (s[k:], s[:k]) trigger them
	{
		a := fv.q.fresh("a")
		var inWin, rel string
		if m.BV {
			inWin = fmt.Sprintf("(and (bvule (soff %s) %s) (bvult %s (bvadd (soff %s) (slen %s))))", sN, a, a, sN, sN)
			rel = "(bvsub " + a + " (soff " + sN + "))"
		} else {
			inWin = fmt.Sprintf("(and (<= (soff %s) %s) (< %s (+ (soff %s) (slen %s))))", sN, a, a, sN, sN)
			rel = "(- " + a + " (soff " + sN + "))"
		}
		pr := "(" + pi + " " + rel + ")"
		pir := "(" + piInv + " " + rel + ")"
		fv.q.assume(fmt.Sprintf("(forall ((%s %s)) (! (=> %s (and %s (= (%s %s) %s) (= (select %s %s) %s))) :pattern ((select %s %s))))",
			a, isort, inWin, in(pr), piInv, pr, rel, row, a, at(oldRow, pr), row, a))
		// (the inverse direction keyed on reads of the OLD row is not asserted: together with the axiom above it forms a
		// matching loop; the relative perminv axiom above remains for surjectivity arguments)
		_ = pir
	}
	// outside the window nothing changes
	j := fv.q.fresh("j")
	var outside string
	if m.BV {
		outside = fmt.Sprintf("(or (bvult %s (soff %s)) (bvuge %s (bvadd (soff %s) (slen %s))))", j, sN, j, sN, sN)
	} else {
		outside = fmt.Sprintf("(or (< %s (soff %s)) (>= %s (+ (soff %s) (slen %s))))", j, sN, j, sN, sN)
	}
	fv.q.assume(fmt.Sprintf("(forall ((%s %s)) (! (=> %s (= (select %s %s) (select %s %s))) :pattern ((select %s %s))))", j, isort, outside, row, j, oldRow, j, row, j))
	fv.heapSet(st, key, "(store "+old+" (sbase "+sN+") "+row+")")
	fv.note("model: sort.* permutes the elements of the slice in place (sortedness not modelled, Less not executed)")
}

func sliceUnderIface(fv *FnVerifier, v ssa.Value, st *State) (Val, types.Type, bool) {
	mi, ok := v.(*ssa.MakeInterface)
	if !ok {
		return Val{}, nil, false
	}
	sl, ok := mi.X.Type().Underlying().(*types.Slice)
	if !ok {
		return Val{}, nil, false
	}
	return fv.value(mi.X, st), sl.Elem(), true
}

func init() {
	pending = append(pending, func() {
		sortIface := model{apply: func(fv *FnVerifier, c *ssa.CallCommon, args []Val, st *State, pos token.Pos, name string) Val {
			sv, et, ok := sliceUnderIface(fv, c.Args[0], st)
			if !ok {
				fv.note("havoc: sort of a value that is not a slice")
				fv.frameUnknownCall(pos, "sort")
				fv.havocAll(st)
				return Val{}
			}
			fv.permuteSlice(st, fv.scalar(sv, c.Args[0].Type()), et, pos, name, fv.exprText(c.Args[0]))
			return Val{}
		}, writes: func(fv *FnVerifier) []string { return []string{"*all"} }}
		models["sort.Sort"] = sortIface
		models["sort.Stable"] = sortIface
		models["sort.Slice"] = sortIface
		models["sort.SliceStable"] = sortIface
		models["sort.Strings"] = model{apply: func(fv *FnVerifier, c *ssa.CallCommon, args []Val, st *State, pos token.Pos, name string) Val {
			fv.permuteSlice(st, fv.scalar(args[0], c.Args[0].Type()), types.Typ[types.String], pos, name, fv.exprText(c.Args[0]))
			return Val{}
		}, writes: func(fv *FnVerifier) []string { return []string{fv.elemsKey(types.Typ[types.String])} }}
	})
}
