package main

// Trusted models of standard-library and helper functions (listed in evidence under trusted_base when used).

import (
	"fmt"
	"go/token"
	"go/types"

	"golang.org/x/tools/go/ssa"
)

type model struct {
	apply  func(fv *FnVerifier, c *ssa.CallCommon, args []Val, st *State, pos token.Pos, name string) Val
	writes func(fv *FnVerifier) []string
}

func noWrites(fv *FnVerifier) []string { return nil }
func bigWrites(fv *FnVerifier) []string {
	fv.arrSort["big"] = "(Array Int Int)"
	return []string{"big"}
}

var models map[string]model

func lockModel(newState string, needAddr bool) model {
	return model{apply: func(fv *FnVerifier, c *ssa.CallCommon, args []Val, st *State, pos token.Pos, name string) Val {
		if args[0].Addr != nil {
			k := fv.lockKeyOfAddr(args[0].Addr)
			was := lockTerm(st, k)
			_ = was
			if newState == "0" && needAddr {
				fv.lockInvariant(st, args[0].Addr, false, pos) // prove the monitor invariant before releasing the write lock
			}
			st.locks[k] = newState
			if newState != "0" {
				fv.lockInvariant(st, args[0].Addr, true, pos) // monitor invariant holds when the lock is acquired
			}
		}
		return Val{}
	}, writes: noWrites}
}

func (fv *FnVerifier) bigNonNil(v Val, what string, pos token.Pos) {
	if fv.fc.NoPanic {
		fv.oblige("nil", "big:"+what, fv.reach[fv.curBlock], "(not (= "+v.S+" 0))", pos, "nil *big.Int")
	}
	fv.q.assume("(=> " + fv.reach[fv.curBlock] + " (not (= " + v.S + " 0)))")
}

func bigBinary(op func(a, b string) string, div bool) model {
	return model{apply: func(fv *FnVerifier, c *ssa.CallCommon, args []Val, st *State, pos token.Pos, name string) Val {
		z, x, y := args[0], args[1], args[2]
		fv.bigNonNil(z, "z", pos)
		fv.bigNonNil(x, fv.exprText(c.Args[1]), pos)
		fv.bigNonNil(y, fv.exprText(c.Args[2]), pos)
		a, b := fv.loadBig(st, x.S), fv.loadBig(st, y.S)
		if div {
			if fv.fc.NoPanic {
				fv.oblige("div0", "big:"+fv.exprText(c.Args[2]), fv.reach[fv.curBlock], "(not (= "+b+" 0))", pos, "big.Int division by zero")
			}
			fv.q.assume("(=> " + fv.reach[fv.curBlock] + " (not (= " + b + " 0)))")
		}
		fv.frameCheckKey(st, "big", z.S, pos, "big:"+fv.exprText(c.Args[0]))
		r := fv.q.bind(name+".v", "Int", op(a, b))
		fv.storeBig(st, z.S, r)
		fv.note("model: math/big.Int arithmetic is exact integer arithmetic on a heap cell")
		return Val{T: z.T, S: z.S}
	}, writes: bigWrites}
}

func init() {
	models = map[string]model{
		"(*sync.RWMutex).Lock":    lockModel("2", true),
		"(*sync.RWMutex).Unlock":  lockModel("0", true),
		"(*sync.RWMutex).RLock":   lockModel("1", true),
		"(*sync.RWMutex).RUnlock": lockModel("0", false),
		"(*sync.Mutex).Lock":      lockModel("2", true),
		"(*sync.Mutex).Unlock":    lockModel("0", true),

		"math/big.NewInt": {apply: func(fv *FnVerifier, c *ssa.CallCommon, args []Val, st *State, pos token.Pos, name string) Val {
			r := fv.allocRef(st)
			b, s, _ := intInfo(args[0].T)
			fv.storeBig(st, r, fv.mode.convInt(args[0].S, b, s, 64, true))
			if fv.mode.BV {
				unsupported("big.Int in bv mode")
			}
			return Val{T: c.Signature().Results().At(0).Type(), S: r}
		}, writes: bigWrites},
		"(*math/big.Int).Add": bigBinary(func(a, b string) string { return "(+ " + a + " " + b + ")" }, false),
		"(*math/big.Int).Sub": bigBinary(func(a, b string) string { return "(- " + a + " " + b + ")" }, false),
		"(*math/big.Int).Mul": bigBinary(func(a, b string) string { return "(* " + a + " " + b + ")" }, false),
		"(*math/big.Int).Div": bigBinary(func(a, b string) string { return "(div " + a + " " + b + ")" }, true),
		"(*math/big.Int).Mod": bigBinary(func(a, b string) string { return "(mod " + a + " " + b + ")" }, true),
		"(*math/big.Int).Quo": bigBinary(func(a, b string) string { return "(tdiv " + a + " " + b + ")" }, true),
		"(*math/big.Int).Rem": bigBinary(func(a, b string) string { return "(trem " + a + " " + b + ")" }, true),
		"(*math/big.Int).Set": {apply: func(fv *FnVerifier, c *ssa.CallCommon, args []Val, st *State, pos token.Pos, name string) Val {
			fv.bigNonNil(args[0], "z", pos)
			fv.bigNonNil(args[1], fv.exprText(c.Args[1]), pos)
			fv.frameCheckKey(st, "big", args[0].S, pos, "big:"+fv.exprText(c.Args[0]))
			fv.storeBig(st, args[0].S, fv.loadBig(st, args[1].S))
			return Val{T: args[0].T, S: args[0].S}
		}, writes: bigWrites},
		"(*math/big.Int).Neg": {apply: func(fv *FnVerifier, c *ssa.CallCommon, args []Val, st *State, pos token.Pos, name string) Val {
			fv.bigNonNil(args[0], "z", pos)
			fv.bigNonNil(args[1], fv.exprText(c.Args[1]), pos)
			fv.frameCheckKey(st, "big", args[0].S, pos, "big:"+fv.exprText(c.Args[0]))
			fv.storeBig(st, args[0].S, "(- "+fv.loadBig(st, args[1].S)+")")
			return Val{T: args[0].T, S: args[0].S}
		}, writes: bigWrites},
		"(*math/big.Int).Abs": {apply: func(fv *FnVerifier, c *ssa.CallCommon, args []Val, st *State, pos token.Pos, name string) Val {
			fv.bigNonNil(args[0], "z", pos)
			fv.bigNonNil(args[1], fv.exprText(c.Args[1]), pos)
			fv.frameCheckKey(st, "big", args[0].S, pos, "big:"+fv.exprText(c.Args[0]))
			fv.storeBig(st, args[0].S, "(abs "+fv.loadBig(st, args[1].S)+")")
			return Val{T: args[0].T, S: args[0].S}
		}, writes: bigWrites},
		"(*math/big.Int).SetUint64": {apply: func(fv *FnVerifier, c *ssa.CallCommon, args []Val, st *State, pos token.Pos, name string) Val {
			fv.bigNonNil(args[0], "z", pos)
			fv.frameCheckKey(st, "big", args[0].S, pos, "big:"+fv.exprText(c.Args[0]))
			fv.storeBig(st, args[0].S, args[1].S)
			return Val{T: args[0].T, S: args[0].S}
		}, writes: bigWrites},
		"(*math/big.Int).SetInt64": {apply: func(fv *FnVerifier, c *ssa.CallCommon, args []Val, st *State, pos token.Pos, name string) Val {
			fv.bigNonNil(args[0], "z", pos)
			fv.frameCheckKey(st, "big", args[0].S, pos, "big:"+fv.exprText(c.Args[0]))
			fv.storeBig(st, args[0].S, args[1].S)
			return Val{T: args[0].T, S: args[0].S}
		}, writes: bigWrites},
		"(*math/big.Int).Cmp": {apply: func(fv *FnVerifier, c *ssa.CallCommon, args []Val, st *State, pos token.Pos, name string) Val {
			fv.bigNonNil(args[0], fv.exprText(c.Args[0]), pos)
			fv.bigNonNil(args[1], fv.exprText(c.Args[1]), pos)
			a, b := fv.loadBig(st, args[0].S), fv.loadBig(st, args[1].S)
			return Val{T: types.Typ[types.Int], S: fv.q.bind(name, "Int", "(ite (< "+a+" "+b+") (- 1) (ite (= "+a+" "+b+") 0 1))")}
		}, writes: noWrites},
		"(*math/big.Int).Sign": {apply: func(fv *FnVerifier, c *ssa.CallCommon, args []Val, st *State, pos token.Pos, name string) Val {
			fv.bigNonNil(args[0], fv.exprText(c.Args[0]), pos)
			a := fv.loadBig(st, args[0].S)
			return Val{T: types.Typ[types.Int], S: fv.q.bind(name, "Int", "(ite (< "+a+" 0) (- 1) (ite (= "+a+" 0) 0 1))")}
		}, writes: noWrites},
		"(*math/big.Int).Uint64": {apply: func(fv *FnVerifier, c *ssa.CallCommon, args []Val, st *State, pos token.Pos, name string) Val {
			fv.bigNonNil(args[0], fv.exprText(c.Args[0]), pos)
			a := fv.loadBig(st, args[0].S)
			fv.note("model: big.Int.Uint64 returns the low 64 bits of |x|")
			return Val{T: types.Typ[types.Uint64], S: fv.q.bind(name, "Int", "(mod (abs "+a+") 18446744073709551616)")}
		}, writes: noWrites},
		"(*math/big.Int).Int64": {apply: func(fv *FnVerifier, c *ssa.CallCommon, args []Val, st *State, pos token.Pos, name string) Val {
			fv.bigNonNil(args[0], fv.exprText(c.Args[0]), pos)
			a := fv.loadBig(st, args[0].S)
			return Val{T: types.Typ[types.Int64], S: fv.q.bind(name, "Int", fv.mode.wrap(a, 64, true))}
		}, writes: noWrites},
		"(*math/big.Int).IsUint64": {apply: func(fv *FnVerifier, c *ssa.CallCommon, args []Val, st *State, pos token.Pos, name string) Val {
			a := fv.loadBig(st, args[0].S)
			return Val{T: types.Typ[types.Bool], S: "(and (<= 0 " + a + ") (< " + a + " 18446744073709551616))"}
		}, writes: noWrites},

		"bytes.Equal": {apply: func(fv *FnVerifier, c *ssa.CallCommon, args []Val, st *State, pos token.Pos, name string) Val {
			return Val{T: types.Typ[types.Bool], S: fv.bytesEqualTerm(st, args[0].S, args[1].S, name)}
		}, writes: noWrites},
		"bytes.Compare": {apply: func(fv *FnVerifier, c *ssa.CallCommon, args []Val, st *State, pos token.Pos, name string) Val {
			// total preorder compatible with equality: result 0 iff equal; antisymmetric via an uninterpreted rank
			eq := fv.bytesEqualTerm(st, args[0].S, args[1].S, name)
			fv.q.declareFun("bytes.lt", []string{"Str", "Str"}, "Bool")
			sa, sb := fv.bytesToString(st, args[0].S), fv.bytesToString(st, args[1].S)
			fv.q.assume("(not (and (bytes.lt " + sa + " " + sb + ") (bytes.lt " + sb + " " + sa + ")))")
			fv.q.assume("(=> (not (= " + sa + " " + sb + ")) (or (bytes.lt " + sa + " " + sb + ") (bytes.lt " + sb + " " + sa + ")))")
			fv.note("model: bytes.Compare is a strict total order on contents (transitivity not instantiated)")
			return Val{T: types.Typ[types.Int], S: fv.q.bind(name, fv.mode.idxSort(), "(ite "+eq+" "+fv.mode.idx(0)+" (ite (bytes.lt "+sa+" "+sb+") "+fv.mode.idx(-1)+" "+fv.mode.idx(1)+"))")}
		}, writes: noWrites},

		"github.com/ElrondNetwork/elrond-go/core/check.IfNil": {apply: func(fv *FnVerifier, c *ssa.CallCommon, args []Val, st *State, pos token.Pos, name string) Val {
			fv.note("model: check.IfNil(x) == (x == nil || underlying pointer is nil)")
			return Val{T: types.Typ[types.Bool], S: "(or (= (itag " + args[0].S + ") 0) (= (ival " + args[0].S + ") 0))"}
		}, writes: noWrites},

		"math/bits.OnesCount8": {apply: func(fv *FnVerifier, c *ssa.CallCommon, args []Val, st *State, pos token.Pos, name string) Val {
			return Val{T: types.Typ[types.Int], S: fv.q.bind(name, fv.mode.idxSort(), fv.popcount8(args[0].S))}
		}, writes: noWrites},

		"errors.New": {apply: func(fv *FnVerifier, c *ssa.CallCommon, args []Val, st *State, pos token.Pos, name string) Val {
			return fv.freshError(st, name)
		}, writes: noWrites},
		"fmt.Errorf": {apply: func(fv *FnVerifier, c *ssa.CallCommon, args []Val, st *State, pos token.Pos, name string) Val {
			return fv.freshError(st, name)
		}, writes: noWrites},
	}
}

func (fv *FnVerifier) freshError(st *State, name string) Val {
	errT := types.Universe.Lookup("error").Type()
	r := fv.allocRef(st)
	tag := fv.typeTag(types.NewPointer(types.NewNamed(types.NewTypeName(token.NoPos, nil, "errorString", nil), types.NewStruct(nil, nil), nil)))
	return Val{T: errT, S: fmt.Sprintf("(mk-iface %d %s)", tag, r)}
}

func (fv *FnVerifier) bytesEqualTerm(st *State, a, b, name string) string {
	m := fv.mode
	k := fv.elemsKey(types.Typ[types.Uint8])
	h := fv.heapGet(st, k)
	eq := fv.q.fresh(name + ".eq")
	fv.q.declareConst(eq, "Bool")
	j := fv.q.fresh("j")
	isort := m.idxSort()
	at := func(s, j string) string {
		return "(select (select " + h + " (sbase " + s + ")) " + idxAdd(m, "(soff "+s+")", j) + ")"
	}
	rng := "(and " + m.cmp("<=", m.idx(0), j, true) + " " + m.cmp("<", j, "(slen "+a+")", true) + ")"
	// eq <=> same length and same contents; the witness of inequality is skolemised
	w := fv.q.fresh(name + ".w")
	fv.q.declareConst(w, isort)
	fv.q.assume(fmt.Sprintf("(=> %s (and (= (slen %s) (slen %s)) (forall ((%s %s)) (! (=> %s (= %s %s)) :pattern (%s) :pattern (%s)))))", eq, a, b, j, isort, rng, at(a, j), at(b, j), at(a, j), at(b, j)))
	rngw := "(and " + m.cmp("<=", m.idx(0), w, true) + " " + m.cmp("<", w, "(slen "+a+")", true) + ")"
	fv.q.assume(fmt.Sprintf("(=> (not %s) (or (not (= (slen %s) (slen %s))) (and %s (not (= %s %s)))))", eq, a, b, rngw, at(a, w), at(b, w)))
	// bytes.Equal(a,b) <=> string(a) == string(b) (instance of Str extensionality that solvers do not derive themselves)
	bsort := "Int"
	if m.BV {
		bsort = "(_ BitVec 8)"
	}
	fv.q.declareFun("str.of", []string{"(Array " + isort + " " + bsort + ")", isort, isort}, "Str")
	sa := "(str.of (select " + h + " (sbase " + a + ")) (soff " + a + ") (slen " + a + "))"
	sb := "(str.of (select " + h + " (sbase " + b + ")) (soff " + b + ") (slen " + b + "))"
	fv.q.assume("(= " + eq + " (= " + sa + " " + sb + "))")
	return eq
}

// sentinelError: package-level error variables (ErrXxx) are assumed initialised once to distinct non-nil errors and never
// reassigned (listed as an assumption).
func (fv *FnVerifier) sentinelError(st *State, key string) {
	fv.arrBase[key] = true
	g := fv.heapGet(st, key)
	if fv.sentinels == nil {
		fv.sentinels = map[string]bool{}
	}
	if fv.sentinels[g] {
		return
	}
	fv.q.assume("(not (= (itag " + g + ") 0))")
	fv.q.assume("(not (= (ival " + g + ") 0))")
	for o := range fv.sentinels {
		fv.q.assume("(not (= " + g + " " + o + "))")
	}
	fv.sentinels[g] = true
	fv.note("package-level error variables are non-nil, pairwise distinct and never reassigned")
}
