package main

import (
	"go/types"

	"golang.org/x/tools/go/ssa"
)

// fnBodyWrites: heap keys written by the body of an anonymous function / closure that is inlined at its call.
func (fv *FnVerifier) fnBodyWrites(fn *ssa.Function, depth int) ([]string, bool) {
	if depth > 3 || len(fn.Blocks) == 0 {
		return nil, true
	}
	keys := map[string]bool{}
	for _, b := range fn.Blocks {
		for _, in := range b.Instrs {
			switch x := in.(type) {
			case *ssa.Store:
				for _, k := range fv.keysOfAddr(x.Addr) {
					keys[k] = true
				}
			case *ssa.MapUpdate:
				for _, k := range fv.mapKeys(x.Map.Type().Underlying().(*types.Map)) {
					keys[k] = true
				}
			case *ssa.Alloc:
				for _, k := range fv.keysOfType(x.Type().(*types.Pointer).Elem()) {
					keys[k] = true
				}
			case *ssa.MakeSlice:
				keys[fv.elemsKey(x.Type().Underlying().(*types.Slice).Elem())] = true
			case *ssa.MakeMap:
				for _, k := range fv.mapKeys(x.Type().Underlying().(*types.Map)) {
					keys[k] = true
				}
			case *ssa.Convert:
				if _, ok := x.Type().Underlying().(*types.Slice); ok {
					keys[fv.elemsKey(types.Typ[types.Uint8])] = true
				}
			case *ssa.Call:
				ks, all := fv.callWritesDepth(x.Common(), depth+1)
				if all {
					return nil, true
				}
				for _, k := range ks {
					keys[k] = true
				}
			case *ssa.Defer, *ssa.Go, *ssa.RunDefers:
				return nil, true
			}
		}
	}
	var out []string
	for k := range keys {
		out = append(out, k)
	}
	return out, false
}

func (fv *FnVerifier) callWritesDepth(c *ssa.CallCommon, depth int) ([]string, bool) {
	if mc, ok := c.Value.(*ssa.MakeClosure); ok {
		if f, ok := mc.Fn.(*ssa.Function); ok {
			return fv.fnBodyWrites(f, depth)
		}
	}
	if fn := c.StaticCallee(); fn != nil && fn.Parent() != nil && fv.contractFor(fn) == nil {
		return fv.fnBodyWrites(fn, depth)
	}
	return fv.callWritesBase(c)
}
