package main

import (
	"fmt"
	"go/token"
	"go/types"
	"sort"
	"strings"

	"golang.org/x/tools/go/ssa"
)

// ---------------------------------------------------------------------------------------------
// maps

func (fv *FnVerifier) mapKeys(mt *types.Map) []string {
	base := typeKey(mt.Key()) + ":" + typeKey(mt.Elem())
	ks := []string{"map.dom:" + base, "map.val:" + base, "map.card:" + base}
	if _, ok := fv.arrSort[ks[0]]; !ok {
		k, v := fv.sortOf(mt.Key()), fv.sortOf(mt.Elem())
		fv.arrSort[ks[0]] = "(Array Int (Array " + k + " Bool))"
		fv.arrSort[ks[1]] = "(Array Int (Array " + k + " " + v + "))"
		fv.arrSort[ks[2]] = "(Array Int " + fv.mode.idxSort() + ")"
	}
	return ks
}

func (fv *FnVerifier) execMakeMap(x *ssa.MakeMap, st *State) {
	mt := x.Type().Underlying().(*types.Map)
	ks := fv.mapKeys(mt)
	r := fv.allocRef(st)
	fv.heapSet(st, ks[0], fmt.Sprintf("(store %s %s ((as const (Array %s Bool)) false))", fv.heapGet(st, ks[0]), r, fv.sortOf(mt.Key())))
	fv.heapSet(st, ks[2], fmt.Sprintf("(store %s %s %s)", fv.heapGet(st, ks[2]), r, fv.mode.idx(0)))
	fv.env[x] = Val{T: x.Type(), S: r}
}

func (fv *FnVerifier) execLookup(x *ssa.Lookup, st *State) {
	base := fv.value(x.X, st)
	if bt, ok := x.X.Type().Underlying().(*types.Basic); ok && bt.Info()&types.IsString != 0 {
		idx := fv.value(x.Index, st)
		i := fv.toIdx(idx)
		fv.boundsCheck(i, "(strlen "+base.S+")", fv.exprText(x.X)+"["+fv.exprText(x.Index)+"]", x.Pos(), idx)
		fv.setEnv(x, Val{T: x.Type(), S: "(select (sarr " + base.S + ") " + i + ")"})
		return
	}
	mt := x.X.Type().Underlying().(*types.Map)
	ks := fv.mapKeys(mt)
	k := fv.scalar(fv.value(x.Index, st), mt.Key())
	in := fv.q.bind(x.Name()+".in", "Bool", "(select (select "+fv.heapGet(st, ks[0])+" "+base.S+") "+k+")")
	// a map that holds a key is not empty
	fv.q.assume("(=> " + in + " " + fv.mode.cmp(">=", "(select "+fv.heapGet(st, ks[2])+" "+base.S+")", fv.mode.idx(1), true) + ")")
	v := fv.q.bind(x.Name(), fv.sortOf(mt.Elem()), "(ite "+in+" (select (select "+fv.heapGet(st, ks[1])+" "+base.S+") "+k+") "+fv.zeroOf(mt.Elem())+")")
	fv.q.assume(fv.wf(v, mt.Elem(), st))
	if x.CommaOk {
		fv.env[x] = Val{T: x.Type(), Tup: []Val{{T: mt.Elem(), S: v}, {T: types.Typ[types.Bool], S: in}}}
	} else {
		fv.env[x] = Val{T: mt.Elem(), S: v}
	}
}

func (fv *FnVerifier) execMapUpdate(x *ssa.MapUpdate, st *State) {
	mt := x.Map.Type().Underlying().(*types.Map)
	ks := fv.mapKeys(mt)
	mp := fv.value(x.Map, st)
	k := fv.scalar(fv.value(x.Key, st), mt.Key())
	v := fv.scalar(fv.value(x.Value, st), mt.Elem())
	reach := fv.reach[fv.curBlock]
	if fv.fc.NoPanic {
		fv.oblige("nil", "mapwrite:"+fv.exprText(x.Map), reach, "(not (= "+mp.S+" 0))", x.Pos(), "assignment to entry in nil map")
	}
	fv.frameCheckKey(st, ks[0], mp.S, x.Pos(), "map "+fv.exprText(x.Map))
	dom := fv.heapGet(st, ks[0])
	in := "(select (select " + dom + " " + mp.S + ") " + k + ")"
	card := fv.heapGet(st, ks[2])
	one := fv.mode.idx(1)
	newCard := "(ite " + in + " (select " + card + " " + mp.S + ") " + idxAdd(fv.mode, "(select "+card+" "+mp.S+")", one) + ")"
	fv.heapSet(st, ks[2], "(store "+card+" "+mp.S+" "+newCard+")")
	fv.heapSet(st, ks[0], "(store "+dom+" "+mp.S+" (store (select "+dom+" "+mp.S+") "+k+" true))")
	val := fv.heapGet(st, ks[1])
	fv.heapSet(st, ks[1], "(store "+val+" "+mp.S+" (store (select "+val+" "+mp.S+") "+k+" "+v+"))")
}

func (fv *FnVerifier) mapDelete(mp Val, key Val, mt *types.Map, st *State, pos token.Pos) {
	ks := fv.mapKeys(mt)
	k := fv.scalar(key, mt.Key())
	fv.frameCheckKey(st, ks[0], mp.S, pos, "map delete")
	dom := fv.heapGet(st, ks[0])
	in := "(select (select " + dom + " " + mp.S + ") " + k + ")"
	card := fv.heapGet(st, ks[2])
	sub := "(- (select " + card + " " + mp.S + ") 1)"
	if fv.mode.BV {
		sub = "(bvsub (select " + card + " " + mp.S + ") " + fv.mode.idx(1) + ")"
	}
	fv.heapSet(st, ks[2], "(store "+card+" "+mp.S+" (ite "+in+" "+sub+" (select "+card+" "+mp.S+")))")
	fv.heapSet(st, ks[0], "(store "+dom+" "+mp.S+" (store (select "+dom+" "+mp.S+") "+k+" false))")
}

type rangeInfo struct {
	m  Val
	mt *types.Map
}

func (fv *FnVerifier) execRange(x *ssa.Range, st *State) {
	mt, ok := x.X.Type().Underlying().(*types.Map)
	if !ok {
		unsupported("range over %s", x.X.Type())
	}
	fv.env[x] = Val{T: x.X.Type(), S: fv.value(x.X, st).S}
	fv.rangeStart(x, mt, fv.env[x], st)
}

func (fv *FnVerifier) execNext(x *ssa.Next, st *State) {
	if x.IsString {
		unsupported("range over string")
	}
	rng := x.Iter.(*ssa.Range)
	mt := rng.X.Type().Underlying().(*types.Map)
	ks := fv.mapKeys(mt)
	mp := fv.value(rng, st)
	ok := fv.q.fresh(x.Name() + ".ok")
	fv.q.declareConst(ok, "Bool")
	k := fv.freshVal(x.Name()+".k", mt.Key(), st)
	in := "(select (select " + fv.heapGet(st, ks[0]) + " " + mp.S + ") " + k.S + ")"
	fv.q.assume("(=> " + ok + " " + in + ")")
	// an empty map yields no iteration
	card := "(select " + fv.heapGet(st, ks[2]) + " " + mp.S + ")"
	fv.q.assume("(=> " + ok + " " + fv.mode.cmp(">", card, fv.mode.idx(0), true) + ")")
	v := fv.q.bind(x.Name()+".v", fv.sortOf(mt.Elem()), "(select (select "+fv.heapGet(st, ks[1])+" "+mp.S+") "+k.S+")")
	fv.q.assume(fv.wf(v, mt.Elem(), st))
	fv.rangeStep(rng, mt, mp, ok, k, st)
	fv.note("map range: every iteration visits an arbitrary key of the current domain (all orders covered; termination not claimed)")
	fv.env[x] = Val{T: x.Type(), Tup: []Val{{T: types.Typ[types.Bool], S: ok}, k, {T: mt.Elem(), S: v}}}
}

// ---------------------------------------------------------------------------------------------
// big.Int

func (fv *FnVerifier) storeBig(st *State, ref, val string) {
	fv.arrSort["big"] = "(Array Int Int)"
	fv.heapSet(st, "big", "(store "+fv.heapGet(st, "big")+" "+ref+" "+val+")")
}

func (fv *FnVerifier) loadBig(st *State, ref string) string {
	fv.arrSort["big"] = "(Array Int Int)"
	return "(select " + fv.heapGet(st, "big") + " " + ref + ")"
}

func (fv *FnVerifier) popcount8(x string) string {
	m := fv.mode
	if m.BV {
		var parts []string
		for i := 0; i < 8; i++ {
			parts = append(parts, fmt.Sprintf("((_ zero_extend 63) ((_ extract %d %d) %s))", i, i, x))
		}
		return "(bvadd " + strings.Join(parts, " ") + ")"
	}
	var parts []string
	for i := 0; i < 8; i++ {
		parts = append(parts, fmt.Sprintf("(mod (div %s %d) 2)", x, 1<<uint(i)))
	}
	return "(+ " + strings.Join(parts, " ") + ")"
}

// ---------------------------------------------------------------------------------------------
// locks

func lockTerm(st *State, key string) string {
	if v, ok := st.locks[key]; ok {
		return v
	}
	// the owner may be denoted by another term (e.g. a ghost function ownerPool(c)): compare it with the owners of the known
	// locks of the same field instead of failing syntactically
	i := strings.Index(key, "@")
	if i < 0 {
		return "0"
	}
	prefix, owner := key[:i+1], key[i+1:]
	var ks []string
	for k := range st.locks {
		if strings.HasPrefix(k, prefix) {
			ks = append(ks, k)
		}
	}
	sort.Strings(ks)
	res := "0"
	for _, k := range ks {
		res = "(ite (= " + owner + " " + k[len(prefix):] + ") " + st.locks[k] + " " + res + ")"
	}
	return res
}

func (fv *FnVerifier) lockKeyOfAddr(a *Addr) string {
	return a.Arr + "@" + a.Ref
}

func (fv *FnVerifier) lockKeyFromSpec(spec string) string {
	e, err := ParseExpr(spec)
	if err != nil {
		unsupported("bad lock spec %q", spec)
	}
	ce := fv.newCEnv(fv.names, fv.entry, fv.entry)
	return fv.lockKeyFromSpecEnv(ce, e)
}

func (fv *FnVerifier) lockKeyFromSpecEnv(ce *CEnv, e Expr) string {
	var owner Val
	var name string
	switch x := e.(type) {
	case *EIdent:
		if ce.self != nil {
			owner = *ce.self
		} else if len(fv.params) > 0 && fv.fn.Signature.Recv() != nil {
			owner = fv.params[0]
		} else {
			unsupported("lock %s without receiver", x.Name)
		}
		name = x.Name
	case *ESel:
		owner = ce.mustEval(x.X)
		name = x.Name
	default:
		unsupported("bad lock expression")
	}
	p, ok := owner.T.Underlying().(*types.Pointer)
	if !ok {
		unsupported("lock owner is not a pointer")
	}
	stt := p.Elem().Underlying().(*types.Struct)
	for i := 0; i < stt.NumFields(); i++ {
		if stt.Field(i).Name() == name {
			return fv.fieldKey(p.Elem(), stt, i) + "@" + owner.S
		}
	}
	unsupported("no lock field %s", name)
	return ""
}

func (fv *FnVerifier) lockCheck(st *State, a *Addr, write bool, pos token.Pos) {
	if a.Owner == nil {
		return
	}
	n, ok := a.Owner.(*types.Named)
	if !ok || n.Obj().Pkg() == nil {
		return
	}
	ss := fv.eng.cs.Structs[n.Obj().Pkg().Path()+"#"+n.Obj().Name()]
	if ss == nil {
		return
	}
	stt := n.Underlying().(*types.Struct)
	for mu, fields := range ss.GuardedBy {
		for _, f := range fields {
			if f != a.FieldName {
				continue
			}
			for i := 0; i < stt.NumFields(); i++ {
				if stt.Field(i).Name() == mu {
					key := fv.fieldKey(n, stt, i) + "@" + a.Ref
					lt := lockTerm(st, key)
					goal := "(>= " + lt + " 1)"
					what := "read"
					if write {
						goal = "(= " + lt + " 2)"
						what = "write"
					}
					// an object allocated by this call is not yet shared (constructors)
					goal = "(or (>= " + a.Ref + " alloc0) " + goal + ")"
					fv.oblige("lock", what+":"+a.FieldName, fv.reach[fv.curBlock], goal, pos, what+" of guarded field "+a.FieldName+" without "+mu)
				}
			}
		}
	}
}

// ---------------------------------------------------------------------------------------------
// frames

type frameTarget struct {
	key   string
	ref   string
	whole bool // the whole array may change at a call (links of a container/list: any element's next/prev/owner)
}

func (fv *FnVerifier) frameTargets(ce *CEnv, fc *FuncContract) []frameTarget {
	var out []frameTarget
	for _, e := range fc.Assigns {
		out = append(out, fv.frameTargetOf(ce, e)...)
	}
	return out
}

func (fv *FnVerifier) frameTargetOf(ce *CEnv, e Expr) []frameTarget {
	switch x := e.(type) {
	case *ESel:
		base := ce.mustEval(x.X)
		p, ok := base.T.Underlying().(*types.Pointer)
		if !ok {
			unsupported("assigns %s: base is not a pointer", exprString(e))
		}
		stt, ok := p.Elem().Underlying().(*types.Struct)
		if !ok {
			unsupported("assigns %s: not a struct", exprString(e))
		}
		for i := 0; i < stt.NumFields(); i++ {
			if stt.Field(i).Name() == x.Name {
				return []frameTarget{{key: fv.fieldKey(p.Elem(), stt, i), ref: base.S}}
			}
		}
		unsupported("assigns %s: no such field", exprString(e))
	case *ECall:
		id, _ := x.Fn.(*EIdent)
		if id == nil || len(x.Args) != 1 {
			break
		}
		if id.Name == "allof" {
			// allof(x.f): field f of EVERY object of x's struct type may change (only the type of x matters)
			sel, ok := x.Args[0].(*ESel)
			if !ok {
				unsupported("assigns allof(): field selector expected")
			}
			ts := fv.frameTargetOf(ce, sel)
			for i := range ts {
				ts[i].whole = true
			}
			return ts
		}
		v := ce.mustEval(x.Args[0])
		switch id.Name {
		case "elems":
			sl, ok := v.T.Underlying().(*types.Slice)
			if !ok {
				unsupported("assigns elems(): slice expected")
			}
			return []frameTarget{{key: fv.elemsKey(sl.Elem()), ref: "(sbase " + v.S + ")"}}
		case "big":
			fv.arrSort["big"] = "(Array Int Int)"
			return []frameTarget{{key: "big", ref: v.S}}
		case "allelems":
			// every backing array of this element type may change (ghost-cell families keyed by many references)
			sl, ok := v.T.Underlying().(*types.Slice)
			if !ok {
				unsupported("assigns allelems(): slice expected")
			}
			return []frameTarget{{key: fv.elemsKey(sl.Elem()), ref: "(sbase " + v.S + ")", whole: true}}
		case "listof":
			// the links and length of container/list l (element Values are ordinary fields: Element.Value)
			fv.listKeys()
			return []frameTarget{{"list.next", v.S, true}, {"list.prev", v.S, true}, {"list.owner", v.S, true}, {"list.len", v.S, false}}
		case "mapof":
			mt, ok := v.T.Underlying().(*types.Map)
			if !ok {
				unsupported("assigns mapof(): map expected")
			}
			var ts []frameTarget
			for _, k := range fv.mapKeys(mt) {
				ts = append(ts, frameTarget{key: k, ref: v.S})
			}
			return ts
		case "cell":
			p, ok := v.T.Underlying().(*types.Pointer)
			if !ok {
				unsupported("assigns cell(): pointer expected")
			}
			var ts []frameTarget
			for _, k := range fv.keysOfType(p.Elem()) {
				ts = append(ts, frameTarget{key: k, ref: v.S})
			}
			return ts
		case "fields":
			p, ok := v.T.Underlying().(*types.Pointer)
			if !ok {
				unsupported("assigns fields(): pointer expected")
			}
			var ts []frameTarget
			for _, k := range fv.keysOfType(p.Elem()) {
				ts = append(ts, frameTarget{key: k, ref: v.S})
			}
			return ts
		}
	}
	unsupported("assigns target %s not understood", exprString(e))
	return nil
}

func (fv *FnVerifier) myTargets() []frameTarget {
	if fv.targets == nil && fv.fc.AssignsOK {
		ce := fv.newCEnv(fv.names, fv.entry, fv.entry)
		fv.targets = fv.frameTargets(ce, fv.fc)
		if fv.targets == nil {
			fv.targets = []frameTarget{}
		}
	}
	return fv.targets
}

func (fv *FnVerifier) frameCheckKey(st *State, key, ref string, pos token.Pos, what string) {
	if !fv.fc.AssignsOK {
		return
	}
	alts := []string{"(>= " + ref + " alloc0)"}
	for _, t := range fv.myTargets() {
		if t.key == key {
			if t.whole && !strings.HasPrefix(key, "list.") {
				return // the whole family may be written
			}
			alts = append(alts, "(= "+ref+" "+t.ref+")")
		}
	}
	fv.oblige("frame", what, fv.reach[fv.curBlock], orN(alts), pos, "write outside the assigns clause")
}

func (fv *FnVerifier) frameCheck(st *State, a *Addr, pos token.Pos) {
	if !fv.fc.AssignsOK {
		return
	}
	if a.Glob {
		fv.oblige("frame", "global:"+a.Arr, fv.reach[fv.curBlock], "false", pos, "write to a global outside the assigns clause")
		return
	}
	what := strings.TrimPrefix(a.Arr, "f:")
	if i := strings.LastIndex(what, "/"); i >= 0 {
		what = what[i+1:]
	}
	fv.frameCheckKey(st, a.Arr, a.Ref, pos, what)
}

func (fv *FnVerifier) frameCheckRef(st *State, ref string, t types.Type, pos token.Pos) {
	if !fv.fc.AssignsOK {
		return
	}
	for _, k := range fv.keysOfType(t) {
		fv.frameCheckKey(st, k, ref, pos, k)
	}
}

func (fv *FnVerifier) markGlobalRO(key string, v *types.Var) {
	fv.arrBase[key] = true
}

// ---------------------------------------------------------------------------------------------
// calls

func calleeName(fn *ssa.Function) string {
	s := fn.String()
	return s
}

func (fv *FnVerifier) contractFor(fn *ssa.Function) *FuncContract {
	if fn.Pkg == nil {
		return nil
	}
	key := fn.Name()
	if recv := fn.Signature.Recv(); recv != nil {
		t := recv.Type()
		if p, ok := t.(*types.Pointer); ok {
			t = p.Elem()
		}
		n, ok := t.(*types.Named)
		if !ok {
			return nil
		}
		key = n.Obj().Name() + "." + fn.Name()
	}
	if fc := fv.eng.cs.Funcs[fn.Pkg.Pkg.Path()+"#"+key]; fc != nil {
		return fc
	}
	if o, ok := fn.Object().(*types.Func); ok {
		return fv.externContract(o)
	}
	return nil
}

func (fv *FnVerifier) ifaceContract(recvT types.Type, method string) *FuncContract {
	n, ok := recvT.(*types.Named)
	if !ok || n.Obj().Pkg() == nil {
		return nil
	}
	ikey := n.Obj().Pkg().Name() + "." + n.Obj().Name() + "." + method
	if fv.fc != nil {
		if fc := fv.eng.cs.Funcs["iface#"+fv.fc.PkgPath+"#"+ikey]; fc != nil {
			return fc
		}
	}
	// interface declared in the package that holds the contract file: undotted receiver type
	if fc := fv.eng.cs.Funcs[n.Obj().Pkg().Path()+"#"+n.Obj().Name()+"."+method]; fc != nil {
		return fc
	}
	// otherwise the contract another package states for it (the first one loaded; load order is the sorted package list)
	fc := fv.eng.cs.Funcs["iface#"+ikey]
	if fc != nil {
		fv.note("interface contract borrowed from another package's contract file: " + ikey + " <- " + fc.PkgPath)
	}
	return fc
}

func isLoggerPkg(p string) bool {
	return strings.HasPrefix(p, "github.com/ElrondNetwork/elrond-go-logger")
}

// callWrites: heap keys a call may write (for loop havoc); all=true when unknown.
func (fv *FnVerifier) callWrites(c *ssa.CallCommon) (keys []string, all bool) {
	return fv.callWritesDepth(c, 0)
}

func (fv *FnVerifier) callWritesBase(c *ssa.CallCommon) (keys []string, all bool) {
	if c.IsInvoke() {
		fc := fv.ifaceContract(c.Value.Type(), c.Method.Name())
		if fc == nil {
			return nil, true
		}
		if fc.Pure || (fc.AssignsOK && len(fc.Assigns) == 0) {
			return nil, false
		}
		if fc.AssignsOK {
			return fv.assignKeysStatic(nil, fc, c.Signature(), c.Value.Type())
		}
		return nil, true
	}
	if b, ok := c.Value.(*ssa.Builtin); ok {
		switch b.Name() {
		case "append", "copy":
			if sl, ok := c.Args[0].Type().Underlying().(*types.Slice); ok {
				return []string{fv.elemsKey(sl.Elem())}, false
			}
		case "delete":
			return fv.mapKeys(c.Args[0].Type().Underlying().(*types.Map)), false
		}
		return nil, false
	}
	fn := c.StaticCallee()
	if fn == nil {
		// call through a func-typed struct field with a contract that writes nothing
		if ld, ok := c.Value.(*ssa.UnOp); ok {
			if fa, ok := ld.X.(*ssa.FieldAddr); ok {
				pt := fa.X.Type().Underlying().(*types.Pointer).Elem()
				if n, ok := pt.(*types.Named); ok && n.Obj().Pkg() != nil {
					stt := pt.Underlying().(*types.Struct)
					if fc := fv.eng.cs.Funcs[n.Obj().Pkg().Path()+"#"+n.Obj().Name()+"."+stt.Field(fa.Field).Name()]; fc != nil && fc.AssignsOK && len(fc.Assigns) == 0 {
						return nil, false
					}
				}
			}
		}
		return nil, true
	}
	name := calleeName(fn)
	if strings.HasPrefix(name, "(*"+atomicPkg+".") && len(c.Args) > 0 {
		// atomic cells: the write (if any) goes to the field holding the cell
		if mdl, ok := models[name]; ok && len(mdl.writes(fv)) == 0 && !strings.HasSuffix(name, ".Set") && !strings.HasSuffix(name, ".Unset") && !strings.HasSuffix(name, ".Toggle") {
			return nil, false
		}
		return fv.keysOfAddr(c.Args[0]), false
	}
	if mdl, ok := models[name]; ok {
		ks := mdl.writes(fv)
		for _, k := range ks {
			if strings.HasPrefix(k, "*") {
				return nil, true
			}
		}
		return ks, false
	}
	if fn.Pkg != nil && isLoggerPkg(fn.Pkg.Pkg.Path()) {
		return nil, false
	}
	if dropCalls[name] {
		return nil, false
	}
	fc := fv.contractFor(fn)
	if fc == nil || !fc.AssignsOK {
		return nil, true
	}
	return fv.assignKeysStatic(fn, fc, fn.Signature, nil)
}

// assignKeysStatic resolves the heap keys of a contract's assigns targets with dummy arguments (recvT: the interface type
// for interface-method contracts). Targets it cannot resolve make the answer `all`.
func (fv *FnVerifier) assignKeysStatic(fn *ssa.Function, fc *FuncContract, sig *types.Signature, recvT types.Type) (keys []string, all bool) {
	defer func() {
		if r := recover(); r != nil {
			keys, all = nil, true
		}
	}()
	tmp := &FnVerifier{eng: fv.eng, fn: fn, fc: fc, mode: fv.mode, q: NewQuery(fv.mode), env: map[ssa.Value]Val{}, arrSort: fv.arrSort, arrBase: fv.arrBase,
		names: map[string]Val{}, nameCount: map[string]int{}, notes: map[string]bool{}, strLits: map[string]string{}, structSeen: map[string]bool{}, axiomsDone: map[string]bool{}}
	// declarations made while resolving the targets must land in the real query (struct sorts referenced by heap arrays)
	tmp.strApps = map[string]string{}
	tmp.matTypes = fv.matTypes
	defer func() {
		for _, text := range tmp.q.sorts {
			const pre = "(declare-datatypes (("
			if strings.HasPrefix(text, pre) {
				rest := text[len(pre):]
				if i := strings.Index(rest, " "); i > 0 {
					name := rest[:i]
					fv.q.declareSort(name, text)
					fv.structSeen[name] = true
				}
			}
		}
	}()
	dst := &State{heap: map[string]string{}, locks: map[string]string{}, alloc: "a"}
	names := map[string]Val{}
	if sig.Recv() != nil && fc.RecvName != "" {
		names[fc.RecvName] = Val{T: sig.Recv().Type(), S: "r"}
	}
	if recvT != nil && fc.RecvName != "" {
		tmp.q.declareConst("ri", "Iface")
		names[fc.RecvName] = Val{T: recvT, S: "ri"}
	}
	for i, p := range fc.Params {
		if i < sig.Params().Len() {
			names[p.Name] = Val{T: sig.Params().At(i).Type(), S: "p"}
		}
	}
	tmp.names = names
	tmp.entry = dst
	ce := tmp.newCEnv(names, dst, dst)
	for _, t := range tmp.frameTargets(ce, fc) {
		keys = append(keys, t.key)
	}
	// make sure the struct sorts the dummy run declared exist in the real query too
	for k := range tmp.structSeen {
		_ = k
	}
	return keys, false
}

var dropCalls = map[string]bool{
	"fmt.Sprintf": true, "fmt.Sprint": true, "fmt.Println": true, "fmt.Printf": true,
	"encoding/hex.EncodeToString": true,
	"runtime.Gosched":             true,
	"github.com/ElrondNetwork/elrond-go/display.Headline": true,
	"(*github.com/ElrondNetwork/elrond-go/core.StopWatch).Start": true,
	"(*github.com/ElrondNetwork/elrond-go/core.StopWatch).Stop":  true,
}

func (fv *FnVerifier) execCall(x *ssa.Call, st *State) {
	r := fv.execCallCommon(x.Common(), x, st, x.Pos())
	if r.T == nil && r.Tup == nil && r.S == "" {
		r = Val{T: x.Type(), S: "0"}
	}
	fv.env[x] = r
}

func (fv *FnVerifier) execCallCommon(c *ssa.CallCommon, instr *ssa.Call, st *State, pos token.Pos) Val {
	reach := fv.reach[fv.curBlock]
	var resT types.Type = c.Signature().Results()
	if c.Signature().Results().Len() == 1 {
		resT = c.Signature().Results().At(0).Type()
	}
	name := "call"
	if instr != nil {
		name = instr.Name()
	}
	freshResult := func() Val {
		if c.Signature().Results().Len() == 0 {
			return Val{}
		}
		return fv.freshVal(name, resT, st)
	}
	if c.IsInvoke() {
		recv := fv.value(c.Value, st)
		fc := fv.ifaceContract(c.Value.Type(), c.Method.Name())
		if fv.fc.NoPanic {
			fv.oblige("nil", "invoke:"+fv.exprText(c.Value)+"."+c.Method.Name(), reach, "(not (= (itag "+recv.S+") 0))", pos, "method call on nil interface")
		}
		fv.q.assume("(=> " + reach + " (not (= (itag " + recv.S + ") 0)))")
		var args []Val
		args = append(args, recv)
		for _, a := range c.Args {
			args = append(args, fv.value(a, st))
		}
		if fc == nil {
			if isErrorMethod(c) {
				return freshResult()
			}
			fv.note("havoc: interface call without contract: " + typeKey(c.Value.Type()) + "." + c.Method.Name())
			fv.frameUnknownCall(pos, typeKey(c.Value.Type())+"."+c.Method.Name())
			fv.havocAll(st)
			return freshResult()
		}
		return fv.applyContract(fc, c.Method, c.Signature(), args, st, pos, name, c.Value.Type())
	}
	if b, ok := c.Value.(*ssa.Builtin); ok {
		return fv.execBuiltin(b, c, st, pos, name)
	}
	fn := c.StaticCallee()
	if fn == nil {
		// deferred / direct call of a closure created in this function: inline simple bodies
		if mc, ok := c.Value.(*ssa.MakeClosure); ok {
			if r, done := fv.inlineClosure(mc, c, st, pos); done {
				return r
			}
		}
		// call through a func-typed struct field: contract written as a method contract `func (x *T) field(...)`
		if fc, recv := fv.funcFieldContract(c, st); fc != nil {
			args := []Val{recv}
			for _, a := range c.Args {
				args = append(args, fv.value(a, st))
			}
			fv.note("assumption about the function value stored in field " + fc.Key + ": it satisfies the contract written for it")
			return fv.applyContract(fc, nil, c.Signature(), args, st, pos, name, recv.T)
		}
		fv.note("havoc: dynamic call at " + fv.posString(pos))
		fv.frameUnknownCall(pos, "dynamic call")
		fv.havocAll(st)
		return freshResult()
	}
	var args []Val
	for _, a := range c.Args {
		args = append(args, fv.value(a, st))
	}
	fname := calleeName(fn)
	// an explicit contract (including `extern`) takes precedence over built-in models and the drop list
	if fc := fv.contractFor(fn); fc != nil {
		var obj *types.Func
		if o, ok := fn.Object().(*types.Func); ok {
			obj = o
		}
		return fv.applyContract(fc, obj, fn.Signature, args, st, pos, name, nil)
	}
	if mdl, ok := models[fname]; ok {
		return mdl.apply(fv, c, args, st, pos, name)
	}
	if fn.Pkg != nil && isLoggerPkg(fn.Pkg.Pkg.Path()) || dropCalls[fname] {
		fv.note("dropped call (no heap effect, result unconstrained): " + fname)
		return freshResult()
	}
	if fc := fv.contractFor(fn); fc != nil {
		var obj *types.Func
		if o, ok := fn.Object().(*types.Func); ok {
			obj = o
		}
		return fv.applyContract(fc, obj, fn.Signature, args, st, pos, name, nil)
	}
	if fn.Parent() != nil {
		// anonymous function without captured variables, called or deferred directly: inline straight-line bodies
		if mc, ok := c.Value.(*ssa.MakeClosure); ok {
			if r, done := fv.inlineClosure(mc, c, st, pos); done {
				return r
			}
		} else if r, done := fv.inlineFn(fn, nil, c, st, pos); done {
			return r
		}
	}
	fv.note("havoc: call without contract: " + fname)
	fv.frameUnknownCall(pos, fname)
	fv.havocAll(st)
	return freshResult()
}

func isErrorMethod(c *ssa.CallCommon) bool {
	return c.Method.Name() == "Error" && c.Signature().Params().Len() == 0
}

// applyContract: assert the callee's precondition, havoc its frame, assume its postcondition.
func (fv *FnVerifier) applyContract(fc *FuncContract, obj *types.Func, sig *types.Signature, args []Val, st *State, pos token.Pos, resName string, ifaceT types.Type) Val {
	reach := fv.reach[fv.curBlock]
	callee := fc.Key
	if len(fc.Params) != sig.Params().Len() {
		// a contract whose header no longer matches the function says nothing about it (all the more when it is trusted)
		unsupported("contract header of %s lists %d parameters, the function has %d: the contract no longer describes this function", callee, len(fc.Params), sig.Params().Len())
	}
	names := map[string]Val{}
	ai := 0
	hasRecv := sig.Recv() != nil || ifaceT != nil
	if hasRecv {
		if fc.RecvName != "" {
			names[fc.RecvName] = args[0]
		}
		names["$recv"] = args[0]
		ai = 1
	}
	for i, p := range fc.Params {
		if ai+i < len(args) {
			a := args[ai+i]
			if a.IsNil && i < sig.Params().Len() {
				a = Val{T: sig.Params().At(i).Type(), S: fv.zeroOf(sig.Params().At(i).Type())}
			}
			if a.Addr != nil {
				unsupported("interior pointer passed to %s", callee)
			}
			names[p.Name] = a
		}
	}
	pre := st.clone()
	ce := fv.newCEnv(names, st, pre)
	ce.pkgPath = fc.PkgPath
	if obj != nil && obj.Pkg() != nil {
		ce.pkg = obj.Pkg()
	}
	// receiver non-nil (static method on pointer receiver)
	if hasRecv && ifaceT == nil {
		if _, ok := args[0].T.Underlying().(*types.Pointer); ok && fv.fc.NoPanic && !fv.lemmaMode {
			fv.oblige("nil", "recv:"+callee, reach, "(not (= "+args[0].S+" 0))", pos, "method call on nil receiver")
		}
	}
	for _, c := range fc.Requires {
		for _, part := range ce.evalClause(c) {
			if fv.lemmaMode {
				fv.q.assume(part.term)
				fv.note("lemma hypothesis: precondition of " + callee + " (" + c.Src + ")")
			} else {
				fv.oblige("call-pre", callee+":"+part.label, reach, part.term, pos, c.Src)
			}
		}
	}
	for _, h := range fc.Holds {
		if fv.lemmaMode {
			break // lemmas compose functional contracts; the lock discipline is checked at the real call sites
		}
		e, _ := ParseExpr(h)
		sub := *ce
		sub.self = &args[0]
		k := fv.lockKeyFromSpecEnv(&sub, e)
		fv.oblige("lock", "held:"+callee, reach, "(= "+lockTerm(st, k)+" 2)", pos, "callee requires "+h+" held for writing")
	}
	for _, h := range fc.HoldsR {
		if fv.lemmaMode {
			break
		}
		e, _ := ParseExpr(h)
		sub := *ce
		sub.self = &args[0]
		k := fv.lockKeyFromSpecEnv(&sub, e)
		fv.oblige("lock", "heldR:"+callee, reach, "(>= "+lockTerm(st, k)+" 1)", pos, "callee requires "+h+" held")
	}
	// frame
	if fc.AssignsOK {
		for _, t := range fv.frameTargets(ce, fc) {
			fv.frameCheckKey(st, t.key, t.ref, pos, "call:"+callee)
			if t.whole {
				fv.heapGet(st, t.key)
				fv.heapHavoc(st, t.key)
				continue
			}
			old := fv.heapGet(st, t.key)
			srt := fv.arrSort[t.key]
			// element sort of the array
			inner := strings.TrimSuffix(strings.TrimPrefix(srt, "(Array Int "), ")")
			nv := fv.q.fresh("hv")
			fv.q.declareConst(nv, inner)
			fv.heapSet(st, t.key, "(store "+old+" "+t.ref+" "+nv+")")
		}
		na := fv.q.fresh("alloc.c")
		fv.q.declareConst(na, "Int")
		fv.q.assume("(>= " + na + " " + st.alloc + ")")
		st.alloc = na
	} else {
		fv.note("callee " + callee + " has no assigns clause: whole heap havoc'd at its call sites")
		fv.frameUnknownCall(pos, callee)
		fv.havocAll(st)
	}
	// results
	var res Val
	nres := sig.Results().Len()
	var rvals []Val
	for i := 0; i < nres; i++ {
		rt := sig.Results().At(i).Type()
		v := fv.freshVal(resName+"."+fmt.Sprint(i), rt, st)
		rvals = append(rvals, v)
		if i < len(fc.Results) {
			names[fc.Results[i].Name] = v
		}
	}
	if fc.Pure && obj != nil && nres == 1 {
		// deterministic function of its arguments
		var sorts, terms []string
		for i, a := range args {
			var t types.Type
			if hasRecv && i == 0 {
				t = args[0].T
			} else {
				t = sig.Params().At(i - ai).Type()
			}
			sorts = append(sorts, fv.sortOf(t))
			terms = append(terms, fv.scalar(a, t))
		}
		pn := pureFnName(obj)
		fv.q.declareFun(pn, sorts, fv.sortOf(sig.Results().At(0).Type()))
		fv.pureRangeAxiom(pn, sorts, sig.Results().At(0).Type())
		app := pn
		if len(terms) > 0 {
			app = "(" + pn + " " + strings.Join(terms, " ") + ")"
		}
		fv.q.assume("(= " + rvals[0].S + " " + app + ")")
		fv.note("pure: " + obj.FullName() + " is treated as a function of its argument values")
		if ifaceT != nil {
			fv.pureApps = append(fv.pureApps, pureApp{obj: obj, recv: terms[0], nargs: len(terms) - 1, res: rvals[0]})
		}
	} else if fc.Pure && obj != nil && nres > 1 {
		// several results: each one is a function of the argument values (not callable inside specifications)
		var sorts, terms []string
		for i, a := range args {
			var t types.Type
			if hasRecv && i == 0 {
				t = args[0].T
			} else {
				t = sig.Params().At(i - ai).Type()
			}
			sorts = append(sorts, fv.sortOf(t))
			terms = append(terms, fv.scalar(a, t))
		}
		for ri := 0; ri < nres; ri++ {
			pn := fmt.Sprintf("%s.r%d", pureFnName(obj), ri)
			fv.q.declareFun(pn, sorts, fv.sortOf(sig.Results().At(ri).Type()))
			app := pn
			if len(terms) > 0 {
				app = "(" + pn + " " + strings.Join(terms, " ") + ")"
			}
			fv.q.assume("(= " + rvals[ri].S + " " + app + ")")
		}
		fv.note("pure: " + obj.FullName() + " is treated as a function of its argument values")
	}
	ce2 := fv.newCEnv(names, st, pre)
	ce2.pkgPath = ce.pkgPath
	ce2.pkg = ce.pkg
	for _, c := range fc.Ensures {
		for _, part := range ce2.evalClause(c) {
			fv.q.assume("(=> " + reach + " " + part.term + ")")
		}
	}
	if fc.Trusted {
		fv.note("trusted contract (body not verified): " + fc.PkgPath + "#" + fc.Key)
	}
	switch nres {
	case 0:
		return Val{}
	case 1:
		res = rvals[0]
	default:
		res = Val{T: sig.Results(), Tup: rvals}
	}
	return res
}

func (fv *FnVerifier) execBuiltin(b *ssa.Builtin, c *ssa.CallCommon, st *State, pos token.Pos, name string) Val {
	m := fv.mode
	reach := fv.reach[fv.curBlock]
	var args []Val
	for _, a := range c.Args {
		args = append(args, fv.value(a, st))
	}
	intT := types.Typ[types.Int]
	fromIdx := func(s string) Val { return Val{T: intT, S: s} }
	switch b.Name() {
	case "close":
		// no effect on the modelled heap; channel state is not modelled (close of a nil/closed channel panics: unchecked)
		fv.note("close(ch): channel state not modelled; a panic on a nil or already closed channel is not excluded")
		return Val{}
	case "len":
		switch u := c.Args[0].Type().Underlying().(type) {
		case *types.Slice:
			return fromIdx("(slen " + args[0].S + ")")
		case *types.Basic:
			return fromIdx("(strlen " + args[0].S + ")")
		case *types.Map:
			ks := fv.mapKeys(u)
			card := "(select " + fv.heapGet(st, ks[2]) + " " + args[0].S + ")"
			fv.q.assume("(and " + m.cmp(">=", card, m.idx(0), true) + " " + m.cmp("<=", card, m.idx(281474976710655), true) + ")")
			return fromIdx(card)
		case *types.Array:
			return fromIdx(m.idx(u.Len()))
		case *types.Pointer:
			return fromIdx(m.idx(u.Elem().Underlying().(*types.Array).Len()))
		}
	case "cap":
		if _, ok := c.Args[0].Type().Underlying().(*types.Slice); ok {
			return fromIdx("(scap " + args[0].S + ")")
		}
	case "delete":
		fv.mapDelete(args[0], args[1], c.Args[0].Type().Underlying().(*types.Map), st, pos)
		return Val{}
	case "append":
		return fv.builtinAppend(c, args, st, pos, name)
	case "copy":
		return fv.builtinCopy(c, args, st, pos, name)
	case "panic":
		if fv.fc.NoPanic && !fv.fc.MayPanic {
			fv.oblige("panic", "explicit", reach, "false", pos, "explicit panic reachable")
		}
		st.dead = true
		return Val{}
	case "print", "println":
		return Val{}
	case "min", "max":
		if bits, signed, ok := intInfo(c.Args[0].Type()); ok && len(args) == 2 {
			_ = bits
			op := "<="
			if b.Name() == "max" {
				op = ">="
			}
			return Val{T: c.Args[0].Type(), S: "(ite " + m.cmp(op, args[0].S, args[1].S, signed) + " " + args[0].S + " " + args[1].S + ")"}
		}
	}
	unsupported("builtin %s", b.Name())
	return Val{}
}

// append(s, t...) per the Go spec: in place when len+n <= cap (caller-visible write into the shared backing array),
// otherwise a fresh backing array.
func (fv *FnVerifier) builtinAppend(c *ssa.CallCommon, args []Val, st *State, pos token.Pos, name string) Val {
	m := fv.mode
	s := args[0]
	var elemT types.Type
	if sl, ok := c.Args[0].Type().Underlying().(*types.Slice); ok {
		elemT = sl.Elem()
	} else {
		unsupported("append to %s", c.Args[0].Type())
	}
	key := fv.elemsKey(elemT)
	esort := fv.sortOf(elemT)
	isort := m.idxSort()
	ss := fv.scalar(s, c.Args[0].Type())
	sN := fv.q.bind(name+".s", "Slice", ss)
	// source: slice or string
	var srcLen string
	var srcAt func(j string) string
	t := args[1]
	old := fv.heapGet(st, key)
	if bt, ok := c.Args[1].Type().Underlying().(*types.Basic); ok && bt.Info()&types.IsString != 0 {
		srcLen = "(strlen " + t.S + ")"
		srcAt = func(j string) string { return "(select (sarr " + t.S + ") " + j + ")" }
	} else {
		ts := fv.scalar(t, c.Args[1].Type())
		tN := fv.q.bind(name+".t", "Slice", ts)
		srcLen = "(slen " + tN + ")"
		srcAt = func(j string) string {
			return "(select (select " + old + " (sbase " + tN + ")) " + idxAdd(m, "(soff "+tN+")", j) + ")"
		}
	}
	n := fv.q.bind(name+".n", isort, srcLen)
	newLen := fv.q.bind(name+".len", isort, idxAdd(m, "(slen "+sN+")", n))
	fits := fv.q.bind(name+".fits", "Bool", m.cmp("<=", newLen, "(scap "+sN+")", true))
	fresh := fv.allocRef(st)
	// capacity of a fresh array: unspecified but >= new length
	ncap := fv.q.fresh(name + ".cap")
	fv.q.declareConst(ncap, isort)
	fv.q.assume(m.cmp(">=", ncap, newLen, true))
	if !m.BV {
		fv.q.assume("(<= " + ncap + " 281474976710655)")
	} else {
		fv.q.assume("(bvule " + ncap + " #x0000ffffffffffff)")
	}
	resBase := fv.q.bind(name+".base", "Int", "(ite "+fits+" (sbase "+sN+") "+fresh+")")
	resOff := fv.q.bind(name+".off", isort, "(ite "+fits+" (soff "+sN+") "+m.idx(0)+")")
	resCap := fv.q.bind(name+".rcap", isort, "(ite "+fits+" (scap "+sN+") "+ncap+")")
	// appending nothing to a nil slice keeps nil
	res := fmt.Sprintf("(mk-slice %s %s %s %s)", resBase, resOff, newLen, resCap)
	// new row of the destination base
	row := fv.q.fresh(name + ".row")
	fv.q.declareConst(row, "(Array "+isort+" "+esort+")")
	oldRow := "(select " + old + " (sbase " + sN + "))"
	j := fv.q.fresh("j")
	lenS := "(slen " + sN + ")"
	dstLo := idxAdd(m, resOff, lenS)
	var inNew, inOld, rel, relOld string
	if m.BV {
		inNew = fmt.Sprintf("(and (bvule %s %s) (bvult %s (bvadd %s %s)))", dstLo, j, j, dstLo, n)
		inOld = fmt.Sprintf("(and (bvule %s %s) (bvult %s %s))", resOff, j, j, dstLo)
		rel = "(bvsub " + j + " " + dstLo + ")"
		relOld = idxAdd(m, "(soff "+sN+")", "(bvsub "+j+" "+resOff+")")
	} else {
		inNew = fmt.Sprintf("(and (<= %s %s) (< %s (+ %s %s)))", dstLo, j, j, dstLo, n)
		inOld = fmt.Sprintf("(and (<= %s %s) (< %s %s))", resOff, j, j, dstLo)
		rel = "(- " + j + " " + dstLo + ")"
		relOld = "(+ (soff " + sN + ") (- " + j + " " + resOff + "))"
	}
	// single-element append: quantifier-free point update
	single := false
	if tc, ok := c.Args[1].(*ssa.Slice); ok {
		if al, ok := tc.X.(*ssa.Alloc); ok {
			if arr, ok := al.Type().(*types.Pointer).Elem().Underlying().(*types.Array); ok && arr.Len() == 1 {
				single = true
			}
		}
	}
	if single {
		v0 := srcAt(m.idx(0))
		// in place: old row with one more element; fresh: elements copied (quantified) plus the new one
		fv.q.assume(fmt.Sprintf("(=> %s (= %s (store %s %s %s)))", fits, row, oldRow, dstLo, v0))
		fv.q.assume(fmt.Sprintf("(=> (not %s) (and (= (select %s %s) %s) (forall ((%s %s)) (! (=> %s (= (select %s %s) (select %s %s))) :pattern ((select %s %s))))))",
			fits, row, dstLo, v0, j, isort, inOld, row, j, oldRow, relOld, row, j))
	} else {
		fv.q.assume(fmt.Sprintf("(forall ((%s %s)) (! (= (select %s %s) (ite %s %s (ite %s (select %s %s) (ite %s (select %s %s) %s)))) :pattern ((select %s %s))))",
			j, isort, row, j, inNew, srcAt(rel), fits, oldRow, j, inOld, oldRow, relOld, fv.zeroOf(elemT), row, j))
	}
	if fv.fc.AssignsOK {
		// the in-place case writes the caller-visible backing array
		alts := []string{"(not " + fits + ")", "(= " + n + " " + m.idx(0) + ")", "(>= (sbase " + sN + ") alloc0)"}
		for _, t := range fv.myTargets() {
			if t.key == key && t.whole {
				alts = append(alts, "true") // allelems(): every backing array of this element type may change
			} else if t.key == key {
				alts = append(alts, "(= (sbase "+sN+") "+t.ref+")")
			}
		}
		fv.oblige("frame", "append:"+fv.exprText(c.Args[0]), fv.reach[fv.curBlock], orN(alts), pos, "append may write into the spare capacity of a caller-visible backing array")
	}
	fv.heapSet(st, key, "(store "+old+" "+resBase+" "+row+")")
	r := fv.q.bind(name, "Slice", res)
	return Val{T: c.Args[0].Type(), S: r}
}

func (fv *FnVerifier) builtinCopy(c *ssa.CallCommon, args []Val, st *State, pos token.Pos, name string) Val {
	m := fv.mode
	dst := args[0]
	sl := c.Args[0].Type().Underlying().(*types.Slice)
	key := fv.elemsKey(sl.Elem())
	isort := m.idxSort()
	esort := fv.sortOf(sl.Elem())
	old := fv.heapGet(st, key)
	var srcLen string
	var srcAt func(j string) string
	if bt, ok := c.Args[1].Type().Underlying().(*types.Basic); ok && bt.Info()&types.IsString != 0 {
		srcLen = "(strlen " + args[1].S + ")"
		srcAt = func(j string) string { return "(select (sarr " + args[1].S + ") " + j + ")" }
	} else {
		tN := fv.q.bind(name+".src", "Slice", fv.scalar(args[1], c.Args[1].Type()))
		srcLen = "(slen " + tN + ")"
		srcAt = func(j string) string {
			return "(select (select " + old + " (sbase " + tN + ")) " + idxAdd(m, "(soff "+tN+")", j) + ")"
		}
	}
	dN := fv.q.bind(name+".dst", "Slice", fv.scalar(dst, c.Args[0].Type()))
	n := fv.q.bind(name+".n", isort, "(ite "+m.cmp("<=", "(slen "+dN+")", srcLen, true)+" (slen "+dN+") "+srcLen+")")
	row := fv.q.fresh(name + ".row")
	fv.q.declareConst(row, "(Array "+isort+" "+esort+")")
	oldRow := "(select " + old + " (sbase " + dN + "))"
	j := fv.q.fresh("j")
	var in, rel string
	if m.BV {
		in = fmt.Sprintf("(and (bvule (soff %s) %s) (bvult %s (bvadd (soff %s) %s)))", dN, j, j, dN, n)
		rel = "(bvsub " + j + " (soff " + dN + "))"
	} else {
		in = fmt.Sprintf("(and (<= (soff %s) %s) (< %s (+ (soff %s) %s)))", dN, j, j, dN, n)
		rel = "(- " + j + " (soff " + dN + "))"
	}
	fv.q.assume(fmt.Sprintf("(forall ((%s %s)) (! (= (select %s %s) (ite %s %s (select %s %s))) :pattern ((select %s %s))))", j, isort, row, j, in, srcAt(rel), oldRow, j, row, j))
	fv.frameCheckKey(st, key, "(sbase "+dN+")", pos, "copy:"+fv.exprText(c.Args[0]))
	fv.heapSet(st, key, "(store "+old+" (sbase "+dN+") "+row+")")
	return Val{T: types.Typ[types.Int], S: n}
}
