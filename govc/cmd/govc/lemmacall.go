package main

// `call x = recv.Method(args)` inside a lemma: the CONTRACT of a real function is applied to the lemma's variables
// (requires assumed and listed, ensures assumed), so a property spanning several functions becomes a lemma over
// their contracts — it is re-proved on every run and breaks when one of the contracts changes.

import (
	"go/types"
	"strings"
)

func (fv *FnVerifier) lemmaCall(ce *CEnv, text string, st *State) {
	parts := strings.SplitN(text, "=", 2)
	if len(parts) != 2 {
		unsupported("lemma call %q: expected `x = f(args)`", text)
	}
	var lhs []string
	for _, n := range strings.Split(parts[0], ",") {
		lhs = append(lhs, strings.TrimSpace(n))
	}
	e, err := ParseExpr(strings.TrimSpace(parts[1]))
	if err != nil {
		unsupported("lemma call %q: %v", text, err)
	}
	call, ok := e.(*ECall)
	if !ok {
		unsupported("lemma call %q: not a call", text)
	}
	var obj *types.Func
	var args []Val
	var fc *FuncContract
	var ifaceT types.Type
	switch f := call.Fn.(type) {
	case *ESel:
		// package-qualified function or method on a value
		if id, isId := f.X.(*EIdent); isId {
			if _, isName := ce.names[id.Name]; !isName && ce.pkg != nil {
				for _, imp := range ce.pkg.Imports() {
					if imp.Name() == id.Name {
						obj, _ = imp.Scope().Lookup(f.Name).(*types.Func)
					}
				}
				if obj != nil {
					fc = fv.eng.cs.Funcs[obj.Pkg().Path()+"#"+obj.Name()]
					break
				}
			}
		}
		recv := ce.mustEval(f.X)
		ms := types.NewMethodSet(recv.T)
		s := ms.Lookup(ce.pkg, f.Name)
		if s == nil {
			unsupported("lemma call %q: no method %s", text, f.Name)
		}
		obj = s.Obj().(*types.Func)
		args = append(args, recv)
		if n, ok := derefNamed(recv.T); ok {
			if _, isI := n.Underlying().(*types.Interface); isI {
				ifaceT = recv.T
				fc = fv.ifaceContract(n, f.Name)
			} else {
				fc = fv.eng.cs.Funcs[n.Obj().Pkg().Path()+"#"+n.Obj().Name()+"."+f.Name]
			}
		}
	case *EIdent:
		if ce.pkg != nil {
			obj, _ = ce.pkg.Scope().Lookup(f.Name).(*types.Func)
		}
		if obj != nil {
			fc = fv.eng.cs.Funcs[obj.Pkg().Path()+"#"+obj.Name()]
		}
	}
	if fc == nil && obj != nil {
		fc = fv.externContract(obj)
	}
	if obj == nil || fc == nil {
		unsupported("lemma call %q: function or its contract not found", text)
	}
	sig := obj.Type().(*types.Signature)
	if len(call.Args) != sig.Params().Len() {
		unsupported("lemma call %q: wrong number of arguments", text)
	}
	for i, a := range call.Args {
		args = append(args, ce.coerce(ce.mustEval(a), sig.Params().At(i).Type()))
	}
	res := fv.applyContract(fc, obj, sig, args, st, 0, lhs[0], ifaceT)
	if res.Tup != nil {
		for i, n := range lhs {
			if i < len(res.Tup) && n != "_" {
				fv.names[n] = res.Tup[i]
			}
		}
	} else if lhs[0] != "_" {
		fv.names[lhs[0]] = res
	}
	fv.note("lemma uses the contract of " + obj.FullName())
}
