package main

// Contract expression language: tokenizer, AST, Pratt parser.

import (
	"fmt"
	"strings"
)

type Expr interface{}

type EIdent struct{ Name string }
type EInt struct{ Val string } // decimal text (arbitrary precision)
type EFloat struct{ Val string }
type EStr struct{ Val string }
type EBool struct{ Val bool }
type ENil struct{}
type EBin struct {
	Op   string
	L, R Expr
}
type EUn struct {
	Op string
	X  Expr
}
type ECall struct {
	Fn   Expr
	Args []Expr
}
type ESel struct {
	X    Expr
	Name string
}
type EIndex struct{ X, I Expr }
type ESlice struct{ X, Lo, Hi Expr }
type ECond struct{ C, A, B Expr }
type EQuant struct {
	Forall bool
	Vars   []QVar
	Body   Expr
}
type QVar struct {
	Name string
	Type string // "" = int
}

type ctoken struct {
	kind string // id, int, float, str, op, eof
	text string
}

func tokenize(s string) ([]ctoken, error) {
	var toks []ctoken
	i := 0
	for i < len(s) {
		c := s[i]
		switch {
		case c == ' ' || c == '\t' || c == '\n' || c == '\r':
			i++
		case isIdStart(c):
			j := i
			for j < len(s) && isIdPart(s[j]) {
				j++
			}
			toks = append(toks, ctoken{"id", s[i:j]})
			i = j
		case c >= '0' && c <= '9':
			j := i
			isFloat := false
			if c == '0' && j+1 < len(s) && (s[j+1] == 'x' || s[j+1] == 'X') {
				j += 2
				for j < len(s) && isHex(s[j]) {
					j++
				}
			} else {
				for j < len(s) && (s[j] >= '0' && s[j] <= '9' || s[j] == '_') {
					j++
				}
				if j+1 < len(s) && s[j] == '.' && s[j+1] >= '0' && s[j+1] <= '9' {
					isFloat = true
					j++
					for j < len(s) && s[j] >= '0' && s[j] <= '9' {
						j++
					}
				}
			}
			if isFloat {
				toks = append(toks, ctoken{"float", s[i:j]})
			} else {
				toks = append(toks, ctoken{"int", strings.ReplaceAll(s[i:j], "_", "")})
			}
			i = j
		case c == '"':
			j := i + 1
			for j < len(s) && s[j] != '"' {
				if s[j] == '\\' {
					j++
				}
				j++
			}
			if j >= len(s) {
				return nil, fmt.Errorf("unterminated string")
			}
			toks = append(toks, ctoken{"str", s[i+1 : j]})
			i = j + 1
		case c == '\'':
			// char literal
			if i+2 < len(s) && s[i+2] == '\'' {
				toks = append(toks, ctoken{"int", fmt.Sprint(int(s[i+1]))})
				i += 3
			} else {
				return nil, fmt.Errorf("bad char literal")
			}
		default:
			ops := []string{"<==>", "==>", "&&", "||", "==", "!=", "<=", ">=", "<<", ">>", "&^", "::", ".."}
			matched := false
			for _, op := range ops {
				if strings.HasPrefix(s[i:], op) {
					toks = append(toks, ctoken{"op", op})
					i += len(op)
					matched = true
					break
				}
			}
			if matched {
				continue
			}
			if strings.ContainsRune("+-*/%&|^!<>()[]{},.:?", rune(c)) {
				toks = append(toks, ctoken{"op", string(c)})
				i++
			} else {
				return nil, fmt.Errorf("unexpected character %q", c)
			}
		}
	}
	toks = append(toks, ctoken{"eof", ""})
	return toks, nil
}

func isIdStart(c byte) bool {
	return c == '_' || c == '$' || c >= 'a' && c <= 'z' || c >= 'A' && c <= 'Z'
}
func isIdPart(c byte) bool { return isIdStart(c) || c >= '0' && c <= '9' }
func isHex(c byte) bool {
	return c >= '0' && c <= '9' || c >= 'a' && c <= 'f' || c >= 'A' && c <= 'F'
}

type eparser struct {
	toks []ctoken
	pos  int
}

func ParseExpr(s string) (e Expr, err error) {
	toks, err := tokenize(s)
	if err != nil {
		return nil, fmt.Errorf("%v in %q", err, s)
	}
	p := &eparser{toks: toks}
	defer func() {
		if r := recover(); r != nil {
			if pe, ok := r.(parseErr); ok {
				err = fmt.Errorf("%s in %q", string(pe), s)
				return
			}
			panic(r)
		}
	}()
	e = p.parse(0)
	if p.peek().kind != "eof" {
		p.fail("unexpected token %q", p.peek().text)
	}
	return e, nil
}

type parseErr string

func (p *eparser) fail(f string, a ...interface{}) { panic(parseErr(fmt.Sprintf(f, a...))) }
func (p *eparser) peek() ctoken                      { return p.toks[p.pos] }
func (p *eparser) next() ctoken                      { t := p.toks[p.pos]; p.pos++; return t }
func (p *eparser) isOp(s string) bool               { t := p.peek(); return t.kind == "op" && t.text == s }
func (p *eparser) expect(s string) {
	if !p.isOp(s) {
		p.fail("expected %q, got %q", s, p.peek().text)
	}
	p.pos++
}

// binary precedence; higher binds tighter
var binPrec = map[string]int{
	"<==>": 1, "==>": 2, "?": 3, "||": 4, "&&": 5,
	"==": 6, "!=": 6, "<": 6, "<=": 6, ">": 6, ">=": 6,
	"+": 7, "-": 7, "|": 7, "^": 7,
	"*": 8, "/": 8, "%": 8, "<<": 8, ">>": 8, "&": 8, "&^": 8,
}

func (p *eparser) parse(minPrec int) Expr {
	lhs := p.parseUnary()
	for {
		t := p.peek()
		if t.kind != "op" {
			return lhs
		}
		prec, ok := binPrec[t.text]
		if !ok || prec < minPrec {
			return lhs
		}
		p.next()
		switch t.text {
		case "==>":
			rhs := p.parse(prec) // right assoc
			lhs = &EBin{"==>", lhs, rhs}
		case "?":
			a := p.parse(prec + 1)
			p.expect(":")
			b := p.parse(prec)
			lhs = &ECond{lhs, a, b}
		default:
			rhs := p.parse(prec + 1)
			lhs = &EBin{t.text, lhs, rhs}
		}
	}
}

func (p *eparser) parseUnary() Expr {
	t := p.peek()
	if t.kind == "op" && (t.text == "!" || t.text == "-" || t.text == "^") {
		p.next()
		x := p.parseUnary()
		return &EUn{t.text, x}
	}
	if t.kind == "id" && (t.text == "forall" || t.text == "exists") {
		p.next()
		var vars []QVar
		for {
			n := p.next()
			if n.kind != "id" {
				p.fail("quantifier variable expected")
			}
			v := QVar{Name: n.text}
			// optional type: tokens up to "," or "::" (e.g. uint32, *list.Element, []byte)
			for {
				t := p.peek()
				if t.kind == "id" || t.kind == "op" && (t.text == "*" || t.text == "[" || t.text == "]" || t.text == ".") {
					v.Type += p.next().text
					continue
				}
				break
			}
			vars = append(vars, v)
			if p.isOp(",") {
				p.next()
				continue
			}
			break
		}
		p.expect("::")
		body := p.parse(0)
		return &EQuant{t.text == "forall", vars, body}
	}
	return p.parsePostfix(p.parsePrimary())
}

func (p *eparser) parsePrimary() Expr {
	t := p.next()
	switch t.kind {
	case "int":
		return &EInt{parseIntText(t.text)}
	case "float":
		return &EFloat{t.text}
	case "str":
		return &EStr{t.text}
	case "id":
		switch t.text {
		case "true":
			return &EBool{true}
		case "false":
			return &EBool{false}
		case "nil":
			return &ENil{}
		}
		return &EIdent{t.text}
	case "op":
		if t.text == "(" {
			e := p.parse(0)
			p.expect(")")
			return e
		}
	}
	p.fail("unexpected token %q", t.text)
	return nil
}

func parseIntText(s string) string {
	if strings.HasPrefix(s, "0x") || strings.HasPrefix(s, "0X") {
		return bigFromHex(s[2:])
	}
	return s
}

func (p *eparser) parsePostfix(x Expr) Expr {
	for {
		switch {
		case p.isOp("("):
			p.next()
			var args []Expr
			for !p.isOp(")") {
				args = append(args, p.parse(0))
				if p.isOp(",") {
					p.next()
				}
			}
			p.expect(")")
			x = &ECall{x, args}
		case p.isOp("."):
			p.next()
			n := p.next()
			if n.kind != "id" {
				p.fail("selector expected")
			}
			x = &ESel{x, n.text}
		case p.isOp("["):
			p.next()
			var lo, hi Expr
			if p.isOp(":") {
				p.next()
				if !p.isOp("]") {
					hi = p.parse(0)
				}
				p.expect("]")
				x = &ESlice{x, nil, hi}
				continue
			}
			lo = p.parse(0)
			if p.isOp(":") {
				p.next()
				if !p.isOp("]") {
					hi = p.parse(0)
				}
				p.expect("]")
				x = &ESlice{x, lo, hi}
				continue
			}
			p.expect("]")
			x = &EIndex{x, lo}
		default:
			return x
		}
	}
}

func exprString(e Expr) string {
	switch e := e.(type) {
	case *EIdent:
		return e.Name
	case *EInt:
		return e.Val
	case *EFloat:
		return e.Val
	case *EStr:
		return fmt.Sprintf("%q", e.Val)
	case *EBool:
		return fmt.Sprint(e.Val)
	case *ENil:
		return "nil"
	case *EBin:
		return "(" + exprString(e.L) + " " + e.Op + " " + exprString(e.R) + ")"
	case *EUn:
		return e.Op + exprString(e.X)
	case *ECall:
		var a []string
		for _, x := range e.Args {
			a = append(a, exprString(x))
		}
		return exprString(e.Fn) + "(" + strings.Join(a, ", ") + ")"
	case *ESel:
		return exprString(e.X) + "." + e.Name
	case *EIndex:
		return exprString(e.X) + "[" + exprString(e.I) + "]"
	case *ESlice:
		lo, hi := "", ""
		if e.Lo != nil {
			lo = exprString(e.Lo)
		}
		if e.Hi != nil {
			hi = exprString(e.Hi)
		}
		return exprString(e.X) + "[" + lo + ":" + hi + "]"
	case *ECond:
		return "(" + exprString(e.C) + " ? " + exprString(e.A) + " : " + exprString(e.B) + ")"
	case *EQuant:
		q := "exists"
		if e.Forall {
			q = "forall"
		}
		var vs []string
		for _, v := range e.Vars {
			vs = append(vs, strings.TrimSpace(v.Name+" "+v.Type))
		}
		return "(" + q + " " + strings.Join(vs, ", ") + " :: " + exprString(e.Body) + ")"
	}
	return fmt.Sprintf("<%T>", e)
}
