package main

import "strings"

// gView is the view named by the spec being checked (see `viewfunc` in cfile.go).
var gView string

// applyView makes the contracts declared `viewfunc <view> ...` the contracts of their functions for this run.
func applyView(cs *ContractSet, view string) {
	if view == "" {
		return
	}
	suffix := "@" + view
	for k, fc := range cs.Funcs {
		if strings.HasSuffix(k, suffix) {
			cs.Funcs[strings.TrimSuffix(k, suffix)] = fc
		}
	}
}
