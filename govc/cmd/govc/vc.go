package main

// Function verifier: symbolic execution of go/ssa with cut loops; obligations per contract clause and per
// potentially panicking instruction.

import (
	"fmt"
	"go/token"
	"go/types"
	"math/big"
	"sort"
	"strings"

	"golang.org/x/tools/go/ssa"
)

type PathEl struct {
	IsIndex bool
	Field   int
	ST      *types.Struct // struct being projected (for field)
	STName  types.Type    // type of the aggregate at this level
	Index   string        // idx-sort term (for array index)
}

type Addr struct {
	Arr  string // heap array key
	Ref  string // Int term
	Idx  string // element index (idx sort) for elems arrays, "" otherwise
	Path []PathEl
	T    types.Type // pointee type
	Glob bool       // single-cell global
	Owner     types.Type // named struct type owning the root field (for lock discipline)
	FieldName string
	Alt       *Addr  // alternative location when AltCond holds (pointer that may denote a slice element)
	AltCond   string
}

type Val struct {
	T     types.Type
	S     string
	Addr  *Addr
	Tup   []Val
	Fn    *ssa.Function
	Binds []Val
	Const *big.Int // untyped/typed integer constant (for literal coercion)
	IsNil bool     // untyped nil
}

type State struct {
	heap  map[string]string // array key -> current SMT constant
	alloc string            // allocation frontier (Int term)
	epoch int
	locks map[string]string // lock key -> Int term: 0 free, 1 read-held, 2 write-held
	dead  bool
}

func (s *State) clone() *State {
	n := &State{heap: make(map[string]string, len(s.heap)), alloc: s.alloc, epoch: s.epoch, locks: make(map[string]string, len(s.locks))}
	for k, v := range s.heap {
		n.heap[k] = v
	}
	for k, v := range s.locks {
		n.locks[k] = v
	}
	return n
}

// pureApp records an application of a pure interface method (used to synthesise stubs when replaying a model).
type pureApp struct {
	obj   *types.Func
	recv  string
	nargs int
	res   Val
}

type unsupportedErr struct{ msg string }

func (u unsupportedErr) Error() string { return u.msg }

func unsupported(f string, a ...interface{}) { panic(unsupportedErr{fmt.Sprintf(f, a...)}) }

type Engine struct {
	prog      *ssa.Program
	fset      *token.FileSet
	cs        *ContractSet
	srcCache  map[string][]byte
	globalsRO map[*ssa.Global]bool
	typeTags  map[string]int
	tagTypes  map[int]types.Type
	notes     map[string]bool // assumptions / havoc'd callees used (for evidence)
}

type FnVerifier struct {
	eng   *Engine
	fn    *ssa.Function
	fc    *FuncContract
	mode  Mode
	q     *Query
	env   map[ssa.Value]Val
	entry *State

	arrSort map[string]string // heap key -> SMT sort
	arrBase map[string]bool

	reach    map[*ssa.BasicBlock]string
	outState map[*ssa.BasicBlock]*State
	edgeCond map[[2]*ssa.BasicBlock]string
	brCond   map[*ssa.BasicBlock]string

	loopHeads map[*ssa.BasicBlock]int // ordinal
	loopBody  map[*ssa.BasicBlock]map[*ssa.BasicBlock]bool
	phiEntry  map[*ssa.Phi]Val // entry-merged value of loop-head phis (for reference)

	defers []*ssa.Defer
	rangeDom0 map[*ssa.Range]string // map range loops: domain of the map at the range statement
	promo  map[string]*Val // single-store local cells (ref term -> stored value; nil until the store is executed)
	names  map[string]Val // parameter names
	params []Val

	nameCount map[string]int
	fnShort   string
	notes     map[string]bool
	curInstr  ssa.Instruction
	curBlock  *ssa.BasicBlock
	retCount  int
	strLits   map[string]string
	structSeen map[string]bool
	axiomsDone map[string]bool
	lockOf     map[ssa.Value]string
	sentinels  map[string]bool
	pureApps   []pureApp
	lemmaMode  bool
	matTypes   map[string]types.Type // struct types whose slice elements have their address taken as a value (&s[i])
	strApps    map[string]string
	targets    []frameTarget
	decVals    map[*ssa.BasicBlock]Val
}

func (fv *FnVerifier) note(s string) {
	fv.notes[s] = true
}

// ---------------------------------------------------------------------------------------------
// Sorts

func typeKey(t types.Type) string {
	t = types.Unalias(t)
	if b, ok := t.(*types.Basic); ok && b.Kind() < types.UntypedBool && int(b.Kind()) < len(types.Typ) {
		return types.Typ[b.Kind()].Name() // byte -> uint8, rune -> int32
	}
	s := typeKeyRaw(t)
	s = strings.ReplaceAll(s, "[]byte", "[]uint8")
	return s
}

func typeKeyRaw(t types.Type) string {
	return types.TypeString(t, func(p *types.Package) string {
		// short but unambiguous enough: last two path elements
		parts := strings.Split(p.Path(), "/")
		if len(parts) > 2 {
			parts = parts[len(parts)-2:]
		}
		return strings.Join(parts, "/")
	})
}

func isOpaqueNamed(t types.Type) bool {
	n, ok := t.(*types.Named)
	if !ok || n.Obj().Pkg() == nil {
		return false
	}
	p := n.Obj().Pkg().Path()
	switch p {
	case "sync", "sync/atomic", "time", "context":
		return true
	}
	return false
}

func isBigInt(t types.Type) bool {
	n, ok := t.(*types.Named)
	return ok && n.Obj().Pkg() != nil && n.Obj().Pkg().Path() == "math/big" && (n.Obj().Name() == "Int" || n.Obj().Name() == "Float")
}

func (fv *FnVerifier) sortOf(t types.Type) string {
	if isOpaqueNamed(t) {
		return "Int"
	}
	switch u := t.Underlying().(type) {
	case *types.Basic:
		if u.Kind() == types.Bool || u.Kind() == types.UntypedBool {
			return "Bool"
		}
		if b, _, ok := intInfo(u); ok {
			return fv.mode.intSort(b)
		}
		if b, ok := isFloat(u); ok {
			return fpSort(b)
		}
		if u.Kind() == types.String || u.Kind() == types.UntypedString {
			return "Str"
		}
		if u.Kind() == types.UnsafePointer || u.Kind() == types.UntypedNil {
			return "Int"
		}
	case *types.Pointer, *types.Map, *types.Chan, *types.Signature:
		return "Int"
	case *types.Slice:
		return "Slice"
	case *types.Interface:
		return "Iface"
	case *types.Array:
		return "(Array " + fv.mode.idxSort() + " " + fv.sortOf(u.Elem()) + ")"
	case *types.Struct:
		return fv.structSort(t, u)
	case *types.Tuple:
		unsupported("tuple sort")
	}
	unsupported("sort of %s", t)
	return ""
}

func (fv *FnVerifier) structName(t types.Type) string {
	return "S_" + sanitize(typeKey(t))
}

func (fv *FnVerifier) structSort(t types.Type, st *types.Struct) string {
	if isBigInt(t) {
		unsupported("big.Int by value")
	}
	name := fv.structName(t)
	if fv.structSeen[name] {
		return name
	}
	fv.structSeen[name] = true
	var fs []string
	for i := 0; i < st.NumFields(); i++ {
		f := st.Field(i)
		fs = append(fs, fmt.Sprintf("(%s.%s %s)", name, sanitize(f.Name()), fv.sortOf(f.Type())))
	}
	if len(fs) == 0 {
		fs = append(fs, fmt.Sprintf("(%s.$unit Int)", name))
	}
	fv.q.declareSort(name, fmt.Sprintf("(declare-datatypes ((%s 0)) (((mk-%s %s))))", name, name, strings.Join(fs, " ")))
	return name
}

func (fv *FnVerifier) fieldAcc(t types.Type, st *types.Struct, i int) string {
	fv.structSort(t, st)
	return fv.structName(t) + "." + sanitize(st.Field(i).Name())
}

func (fv *FnVerifier) zeroOf(t types.Type) string {
	if isOpaqueNamed(t) {
		return "0"
	}
	switch u := t.Underlying().(type) {
	case *types.Basic:
		if u.Kind() == types.Bool {
			return "false"
		}
		if b, _, ok := intInfo(u); ok {
			return fv.mode.litI(0, b)
		}
		if b, ok := isFloat(u); ok {
			return "(_ +zero " + map[int]string{32: "8 24", 64: "11 53"}[b] + ")"
		}
		if u.Kind() == types.String {
			return fv.strLit("")
		}
		return "0"
	case *types.Pointer, *types.Map, *types.Chan, *types.Signature:
		return "0"
	case *types.Slice:
		return fmt.Sprintf("(mk-slice 0 %s %s %s)", fv.mode.idx(0), fv.mode.idx(0), fv.mode.idx(0))
	case *types.Interface:
		return "(mk-iface 0 0)"
	case *types.Array:
		return fmt.Sprintf("((as const %s) %s)", fv.sortOf(t), fv.zeroOf(u.Elem()))
	case *types.Struct:
		name := fv.structSort(t, u)
		var fs []string
		for i := 0; i < u.NumFields(); i++ {
			fs = append(fs, fv.zeroOf(u.Field(i).Type()))
		}
		if len(fs) == 0 {
			fs = append(fs, "0")
		}
		return "(mk-" + name + " " + strings.Join(fs, " ") + ")"
	}
	unsupported("zero of %s", t)
	return ""
}

func (fv *FnVerifier) strLit(s string) string {
	if t, ok := fv.strLits[s]; ok {
		return t
	}
	var t string
	bsort := "Int"
	if fv.mode.BV {
		bsort = "(_ BitVec 8)"
	}
	if len(s) <= 48 {
		arr := fmt.Sprintf("((as const (Array %s %s)) %s)", fv.mode.idxSort(), bsort, fv.mode.litI(0, 8))
		for i := 0; i < len(s); i++ {
			arr = fmt.Sprintf("(store %s %s %s)", arr, fv.mode.idx(int64(i)), fv.mode.litI(int64(s[i]), 8))
		}
		t = fmt.Sprintf("(mk-str %s %s)", arr, fv.mode.idx(int64(len(s))))
	} else {
		n := fv.q.fresh("strlit")
		fv.q.declareConst(n, "Str")
		fv.q.assume(fmt.Sprintf("(= (strlen %s) %s)", n, fv.mode.idx(int64(len(s)))))
		t = n
	}
	fv.strLits[s] = t
	return t
}

// wf returns a well-formedness assumption for a value of Go type t held in term x (may be "true").
func (fv *FnVerifier) wf(x string, t types.Type, st *State) string {
	if isOpaqueNamed(t) {
		return "true"
	}
	switch u := t.Underlying().(type) {
	case *types.Basic:
		if b, s, ok := intInfo(u); ok {
			return fv.mode.rangeAssume(x, b, s)
		}
		if u.Kind() == types.String {
			if fv.mode.BV {
				return "true"
			}
			return fmt.Sprintf("(and (>= (strlen %s) 0) (<= (strlen %s) 281474976710655))", x, x)
		}
		if u.Kind() == types.UnsafePointer {
			return "true"
		}
		return "true"
	case *types.Pointer, *types.Map, *types.Chan:
		if p, ok := u.(*types.Pointer); ok && fv.isMatType(p.Elem()) {
			// may be an element reference (negative)
			if st != nil {
				return fmt.Sprintf("(< %s %s)", x, st.alloc)
			}
			return "true"
		}
		if st != nil {
			return fmt.Sprintf("(and (<= 0 %s) (< %s %s))", x, x, st.alloc)
		}
		return fmt.Sprintf("(<= 0 %s)", x)
	case *types.Signature:
		return "true"
	case *types.Slice:
		m := fv.mode
		var parts []string
		if m.BV {
			parts = append(parts, fmt.Sprintf("(bvule (slen %s) (scap %s))", x, x),
				fmt.Sprintf("(bvule (scap %s) #x0000ffffffffffff)", x), fmt.Sprintf("(bvule (soff %s) #x0000ffffffffffff)", x),
				fmt.Sprintf("(=> (= (sbase %s) 0) (= (scap %s) #x0000000000000000))", x, x))
		} else {
			parts = append(parts, fmt.Sprintf("(<= 0 (soff %s))", x), fmt.Sprintf("(<= 0 (slen %s) (scap %s))", x, x),
				fmt.Sprintf("(<= (+ (soff %s) (scap %s)) 281474976710655)", x, x),
				fmt.Sprintf("(=> (= (sbase %s) 0) (= (scap %s) 0))", x, x))
		}
		if st != nil {
			parts = append(parts, fmt.Sprintf("(and (<= 0 (sbase %s)) (< (sbase %s) %s))", x, x, st.alloc))
		} else {
			parts = append(parts, fmt.Sprintf("(<= 0 (sbase %s))", x))
		}
		return "(and " + strings.Join(parts, " ") + ")"
	case *types.Interface:
		if st != nil {
			return fmt.Sprintf("(and (<= 0 (itag %s)) (=> (= (itag %s) 0) (= (ival %s) 0)) (< (ival %s) %s))", x, x, x, x, st.alloc)
		}
		return fmt.Sprintf("(and (<= 0 (itag %s)) (=> (= (itag %s) 0) (= (ival %s) 0)))", x, x, x)
	case *types.Struct:
		var parts []string
		for i := 0; i < u.NumFields(); i++ {
			w := fv.wf("("+fv.fieldAcc(t, u, i)+" "+x+")", u.Field(i).Type(), st)
			if w != "true" {
				parts = append(parts, w)
			}
		}
		if len(parts) == 0 {
			return "true"
		}
		return "(and " + strings.Join(parts, " ") + ")"
	}
	return "true"
}

// freshVal declares a fresh constant of Go type t with its well-formedness assumed.
func (fv *FnVerifier) freshVal(prefix string, t types.Type, st *State) Val {
	if tup, ok := t.(*types.Tuple); ok {
		var vs []Val
		for i := 0; i < tup.Len(); i++ {
			vs = append(vs, fv.freshVal(fmt.Sprintf("%s.%d", prefix, i), tup.At(i).Type(), st))
		}
		return Val{T: t, Tup: vs}
	}
	n := fv.q.fresh(prefix)
	fv.q.declareConst(n, fv.sortOf(t))
	fv.q.assume(fv.wf(n, t, st))
	return Val{T: t, S: n}
}

// ---------------------------------------------------------------------------------------------
// Heap arrays

func (fv *FnVerifier) fieldKey(structT types.Type, st *types.Struct, i int) string {
	key := "f:" + typeKey(structT) + "." + st.Field(i).Name()
	if _, ok := fv.arrSort[key]; !ok {
		fv.arrSort[key] = "(Array Int " + fv.sortOf(st.Field(i).Type()) + ")"
	}
	return key
}

func (fv *FnVerifier) cellKey(t types.Type) string {
	if isBigInt(t) {
		fv.arrSort["big"] = "(Array Int Int)"
		return "big"
	}
	key := "cell:" + typeKey(t)
	if _, ok := fv.arrSort[key]; !ok {
		fv.arrSort[key] = "(Array Int " + fv.sortOf(t) + ")"
	}
	return key
}

func (fv *FnVerifier) elemsKey(elem types.Type) string {
	key := "elems:" + typeKey(elem)
	if _, ok := fv.arrSort[key]; !ok {
		fv.arrSort[key] = "(Array Int (Array " + fv.mode.idxSort() + " " + fv.sortOf(elem) + "))"
	}
	return key
}

func (fv *FnVerifier) globalKey(g *ssa.Global) string {
	key := "g:" + g.Pkg.Pkg.Path() + "." + g.Name()
	if _, ok := fv.arrSort[key]; !ok {
		fv.arrSort[key] = fv.sortOf(g.Type().(*types.Pointer).Elem())
	}
	return key
}

func (fv *FnVerifier) heapGet(st *State, key string) string {
	if v, ok := st.heap[key]; ok {
		return v
	}
	srt, ok := fv.arrSort[key]
	if !ok {
		panic("heap array without sort: " + key)
	}
	name := fmt.Sprintf("H.%s.e%d", sanitize(key), st.epoch)
	fv.q.declareConst(name, srt)
	st.heap[key] = name
	return name
}

func (fv *FnVerifier) heapSet(st *State, key, term string) {
	srt := fv.arrSort[key]
	n := fv.q.bind("H."+sanitize(key), srt, term)
	st.heap[key] = n
}

func (fv *FnVerifier) heapHavoc(st *State, key string) string {
	srt := fv.arrSort[key]
	n := fv.q.fresh("H." + sanitize(key) + ".hv")
	fv.q.declareConst(n, srt)
	st.heap[key] = n
	return n
}

// havocAll forgets every heap array (used for calls without a usable frame).
func (fv *FnVerifier) havocAll(st *State) {
	st.epoch = fv.q.n + 1
	fv.q.n++
	for k := range st.heap {
		if strings.HasPrefix(k, "g:") && fv.arrBase[k] {
			continue // read-only globals
		}
		if strings.HasPrefix(k, "ghost:") {
			continue // ghost state is not memory
		}
		delete(st.heap, k)
	}
	na := fv.q.fresh("alloc")
	fv.q.declareConst(na, "Int")
	fv.q.assume(fmt.Sprintf("(>= %s %s)", na, st.alloc))
	st.alloc = na
}

// ---------------------------------------------------------------------------------------------
// Loads / stores through Addr

func (fv *FnVerifier) projectPath(cur string, curT types.Type, path []PathEl) (string, types.Type) {
	for _, pe := range path {
		if pe.IsIndex {
			arr := curT.Underlying().(*types.Array)
			cur = "(select " + cur + " " + pe.Index + ")"
			curT = arr.Elem()
		} else {
			st := curT.Underlying().(*types.Struct)
			cur = "(" + fv.fieldAcc(curT, st, pe.Field) + " " + cur + ")"
			curT = st.Field(pe.Field).Type()
		}
	}
	return cur, curT
}

func (fv *FnVerifier) updatePath(cur string, curT types.Type, path []PathEl, v string) string {
	if len(path) == 0 {
		return v
	}
	pe := path[0]
	if pe.IsIndex {
		arr := curT.Underlying().(*types.Array)
		inner := fv.updatePath("(select "+cur+" "+pe.Index+")", arr.Elem(), path[1:], v)
		return "(store " + cur + " " + pe.Index + " " + inner + ")"
	}
	st := curT.Underlying().(*types.Struct)
	name := fv.structSort(curT, st)
	var fs []string
	for i := 0; i < st.NumFields(); i++ {
		acc := "(" + fv.fieldAcc(curT, st, i) + " " + cur + ")"
		if i == pe.Field {
			fs = append(fs, fv.updatePath(acc, st.Field(i).Type(), path[1:], v))
		} else {
			fs = append(fs, acc)
		}
	}
	return "(mk-" + name + " " + strings.Join(fs, " ") + ")"
}

// rootType: the Go type of the value stored in one slot of a.Arr
func (fv *FnVerifier) slotType(a *Addr) types.Type {
	if len(a.Path) == 0 {
		return a.T
	}
	return a.Path[0].STName
}

func (fv *FnVerifier) loadAddr(st *State, a *Addr) string {
	if a.Alt != nil {
		main := *a
		main.Alt = nil
		return "(ite " + a.AltCond + " " + fv.loadAddr(st, a.Alt) + " " + fv.loadAddr(st, &main) + ")"
	}
	var cur string
	if a.Glob {
		cur = fv.heapGet(st, a.Arr)
	} else {
		cur = "(select " + fv.heapGet(st, a.Arr) + " " + a.Ref + ")"
		if a.Idx != "" {
			cur = "(select " + cur + " " + a.Idx + ")"
		}
	}
	r, _ := fv.projectPath(cur, fv.slotType(a), a.Path)
	return r
}

func (fv *FnVerifier) storeAddr(st *State, a *Addr, v string) {
	if a.Alt != nil {
		// pointer that may denote a slice element: update whichever location it denotes
		main := *a
		main.Alt = nil
		oldMain := fv.heapGet(st, main.Arr)
		oldAlt := fv.heapGet(st, a.Alt.Arr)
		fv.storeAddr(st, &main, v)
		newMain := fv.heapGet(st, main.Arr)
		st.heap[main.Arr] = oldMain
		fv.storeAddr(st, a.Alt, v)
		newAlt := fv.heapGet(st, a.Alt.Arr)
		fv.heapSet(st, main.Arr, "(ite "+a.AltCond+" "+oldMain+" "+newMain+")")
		fv.heapSet(st, a.Alt.Arr, "(ite "+a.AltCond+" "+newAlt+" "+oldAlt+")")
		return
	}
	h := fv.heapGet(st, a.Arr)
	if a.Glob {
		fv.heapSet(st, a.Arr, fv.updatePath(h, fv.slotType(a), a.Path, v))
		return
	}
	if a.Idx == "" {
		cur := "(select " + h + " " + a.Ref + ")"
		fv.heapSet(st, a.Arr, "(store "+h+" "+a.Ref+" "+fv.updatePath(cur, fv.slotType(a), a.Path, v)+")")
		return
	}
	row := "(select " + h + " " + a.Ref + ")"
	cur := "(select " + row + " " + a.Idx + ")"
	fv.heapSet(st, a.Arr, "(store "+h+" "+a.Ref+" (store "+row+" "+a.Idx+" "+fv.updatePath(cur, fv.slotType(a), a.Path, v)+"))")
}

// loadPtr loads the value a plain pointer term p (pointee type t) points to.
func (fv *FnVerifier) loadPtr(st *State, p string, t types.Type) Val {
	if isBigInt(t) {
		unsupported("load of big.Int value")
	}
	if isOpaqueNamed(t) {
		return Val{T: t, S: "0"}
	}
	if s, ok := t.Underlying().(*types.Struct); ok {
		name := fv.structSort(t, s)
		var fs []string
		for i := 0; i < s.NumFields(); i++ {
			k := fv.fieldKey(t, s, i)
			fs = append(fs, "(select "+fv.heapGet(st, k)+" "+p+")")
		}
		if len(fs) == 0 {
			fs = append(fs, "0")
		}
		return Val{T: t, S: "(mk-" + name + " " + strings.Join(fs, " ") + ")"}
	}
	if arr, ok := t.Underlying().(*types.Array); ok {
		k := fv.elemsKey(arr.Elem())
		return Val{T: t, S: "(select " + fv.heapGet(st, k) + " " + p + ")"}
	}
	k := fv.cellKey(t)
	return Val{T: t, S: "(select " + fv.heapGet(st, k) + " " + p + ")"}
}

func (fv *FnVerifier) storePtr(st *State, p string, t types.Type, v string) {
	if isOpaqueNamed(t) {
		return
	}
	if s, ok := t.Underlying().(*types.Struct); ok {
		if isBigInt(t) {
			unsupported("store of big.Int value")
		}
		for i := 0; i < s.NumFields(); i++ {
			k := fv.fieldKey(t, s, i)
			fv.heapSet(st, k, "(store "+fv.heapGet(st, k)+" "+p+" ("+fv.fieldAcc(t, s, i)+" "+v+"))")
		}
		return
	}
	if arr, ok := t.Underlying().(*types.Array); ok {
		k := fv.elemsKey(arr.Elem())
		fv.heapSet(st, k, "(store "+fv.heapGet(st, k)+" "+p+" "+v+")")
		return
	}
	k := fv.cellKey(t)
	fv.heapSet(st, k, "(store "+fv.heapGet(st, k)+" "+p+" "+v+")")
}

// allocRef returns a fresh object reference.
func (fv *FnVerifier) allocRef(st *State) string {
	r := fv.q.bind("new", "Int", st.alloc)
	na := fv.q.bind("alloc", "Int", "(+ "+st.alloc+" 1)")
	st.alloc = na
	return r
}

// ---------------------------------------------------------------------------------------------
// Obligation naming

func (fv *FnVerifier) srcText(pos token.Pos, end token.Pos) string {
	if !pos.IsValid() {
		return ""
	}
	p := fv.eng.fset.Position(pos)
	data := fv.eng.source(p.Filename)
	if data == nil {
		return ""
	}
	if end.IsValid() {
		e := fv.eng.fset.Position(end)
		if e.Offset <= len(data) && p.Offset < e.Offset {
			return string(data[p.Offset:e.Offset])
		}
	}
	return ""
}

func (fv *FnVerifier) oblName(kind, label string) string {
	base := fv.fnShort + "#" + kind
	if label != "" {
		base += ":" + label
	}
	fv.nameCount[base]++
	if n := fv.nameCount[base]; n > 1 {
		return fmt.Sprintf("%s@%d", base, n)
	}
	return base
}

func (fv *FnVerifier) posString(pos token.Pos) string {
	if !pos.IsValid() {
		return ""
	}
	p := fv.eng.fset.Position(pos)
	return fmt.Sprintf("%s:%d", strings.TrimPrefix(p.Filename, "/repo/"), p.Line)
}

// oblige registers goal (must hold whenever cond holds).
func (fv *FnVerifier) oblige(kind, label, cond, goal string, pos token.Pos, detail string) *Obligation {
	g := goal
	if cond != "" && cond != "true" {
		g = "(=> " + cond + " " + goal + ")"
	}
	o := &Obligation{Name: fv.oblName(kind, label), Kind: kind, Goal: g, Pos: fv.posString(pos), Detail: detail, FnName: fv.fnShort, Ctx: &ReplayCtx{fv: fv}}
	// second formulation, tried when the solvers do not answer the first: top-level universals skolemised
	if alt := fv.skolemizeGoal(goal); alt != goal {
		o.AltGoal = alt
		if cond != "" && cond != "true" {
			o.AltGoal = "(=> " + cond + " " + alt + ")"
		}
	}
	if goal == "true" {
		o.Status, o.Solver = "unsat", "syntactic"
	}
	fv.q.oblige(o)
	return o
}

func (fv *FnVerifier) probe(kind, label, cond string) {
	o := &Obligation{Name: fv.oblName(kind, label), Kind: kind, ExpectSat: true, FnName: fv.fnShort}
	fv.q.oblige(o)
	if cond != "" && cond != "true" {
		// satisfiable together with cond: render adds nothing for ExpectSat, so push cond via a dedicated goal
		o.Goal = cond
	}
}

// ---------------------------------------------------------------------------------------------
// CFG helpers

func (fv *FnVerifier) computeLoops() {
	fn := fv.fn
	fv.loopHeads = map[*ssa.BasicBlock]int{}
	fv.loopBody = map[*ssa.BasicBlock]map[*ssa.BasicBlock]bool{}
	var heads []*ssa.BasicBlock
	for _, b := range fn.Blocks {
		for _, p := range b.Preds {
			if b.Dominates(p) {
				if _, ok := fv.loopBody[b]; !ok {
					fv.loopBody[b] = map[*ssa.BasicBlock]bool{b: true}
					heads = append(heads, b)
				}
				// natural loop: nodes reaching p without passing through b
				body := fv.loopBody[b]
				var stack []*ssa.BasicBlock
				if !body[p] {
					body[p] = true
					stack = append(stack, p)
				}
				for len(stack) > 0 {
					x := stack[len(stack)-1]
					stack = stack[:len(stack)-1]
					for _, pp := range x.Preds {
						if !body[pp] {
							body[pp] = true
							stack = append(stack, pp)
						}
					}
				}
			}
		}
	}
	// ordinal by source position of the loop (position of the first positioned instruction in the head or its If)
	sort.SliceStable(heads, func(i, j int) bool { return fv.loopPos(heads[i]) < fv.loopPos(heads[j]) })
	for i, h := range heads {
		fv.loopHeads[h] = i + 1
	}
}

func (fv *FnVerifier) loopPos(h *ssa.BasicBlock) token.Pos {
	best := token.Pos(1 << 30)
	for b := range fv.loopBody[h] {
		for _, in := range b.Instrs {
			if p := in.Pos(); p.IsValid() && p < best {
				best = p
			}
		}
	}
	return best
}

func (fv *FnVerifier) isBackEdge(p, h *ssa.BasicBlock) bool {
	_, isHead := fv.loopHeads[h]
	return isHead && h.Dominates(p)
}

// topological order ignoring back edges
func (fv *FnVerifier) blockOrder() []*ssa.BasicBlock {
	visited := map[*ssa.BasicBlock]bool{}
	var post []*ssa.BasicBlock
	var dfs func(b *ssa.BasicBlock)
	dfs = func(b *ssa.BasicBlock) {
		visited[b] = true
		for _, s := range b.Succs {
			if !visited[s] && !fv.isBackEdge(b, s) {
				dfs(s)
			}
		}
		post = append(post, b)
	}
	dfs(fv.fn.Blocks[0])
	for i, j := 0, len(post)-1; i < j; i, j = i+1, j-1 {
		post[i], post[j] = post[j], post[i]
	}
	return post
}

func and2(a, b string) string {
	if a == "true" {
		return b
	}
	if b == "true" {
		return a
	}
	return "(and " + a + " " + b + ")"
}

func orN(xs []string) string {
	if len(xs) == 0 {
		return "false"
	}
	if len(xs) == 1 {
		return xs[0]
	}
	return "(or " + strings.Join(xs, " ") + ")"
}

func andN(xs []string) string {
	var ys []string
	for _, x := range xs {
		if x != "true" {
			ys = append(ys, x)
		}
	}
	if len(ys) == 0 {
		return "true"
	}
	if len(ys) == 1 {
		return ys[0]
	}
	return "(and " + strings.Join(ys, " ") + ")"
}

// mergeStates builds the state at a join from (edge condition, state) pairs.
func (fv *FnVerifier) mergeStates(edges []string, states []*State) *State {
	if len(states) == 1 {
		return states[0].clone()
	}
	res := states[0].clone()
	keys := map[string]bool{}
	for _, s := range states {
		for k := range s.heap {
			keys[k] = true
		}
	}
	var sk []string
	for k := range keys {
		sk = append(sk, k)
	}
	sort.Strings(sk)
	// epochs: if states disagree on epoch, take the max and make sure arrays missing in a state get that state's base
	for _, k := range sk {
		same := true
		first := ""
		for i, s := range states {
			v := fv.heapGet(s, k)
			if i == 0 {
				first = v
			} else if v != first {
				same = false
			}
		}
		if same {
			res.heap[k] = first
			continue
		}
		term := fv.heapGet(states[len(states)-1], k)
		for i := len(states) - 2; i >= 0; i-- {
			term = "(ite " + edges[i] + " " + fv.heapGet(states[i], k) + " " + term + ")"
		}
		res.heap[k] = fv.q.bind("H."+sanitize(k)+".m", fv.arrSort[k], term)
	}
	// allocation frontier
	sameA := true
	for _, s := range states {
		if s.alloc != states[0].alloc {
			sameA = false
		}
		if s.epoch > res.epoch {
			res.epoch = s.epoch
		}
	}
	if !sameA {
		term := states[len(states)-1].alloc
		for i := len(states) - 2; i >= 0; i-- {
			term = "(ite " + edges[i] + " " + states[i].alloc + " " + term + ")"
		}
		res.alloc = fv.q.bind("alloc.m", "Int", term)
	}
	// locks
	lk := map[string]bool{}
	for _, s := range states {
		for k := range s.locks {
			lk[k] = true
		}
	}
	for k := range lk {
		get := func(s *State) string {
			if v, ok := s.locks[k]; ok {
				return v
			}
			return "0"
		}
		term := get(states[len(states)-1])
		same := true
		for i := len(states) - 2; i >= 0; i-- {
			if get(states[i]) != term {
				same = false
			}
		}
		if !same {
			term = get(states[len(states)-1])
			for i := len(states) - 2; i >= 0; i-- {
				term = "(ite " + edges[i] + " " + get(states[i]) + " " + term + ")"
			}
		}
		res.locks[k] = term
	}
	return res
}
