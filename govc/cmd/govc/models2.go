package main

// Models of elrond-go's own tiny helper types that are used through interior pointers (core/atomic.Flag, ...).

import (
	"go/token"
	"go/types"

	"golang.org/x/tools/go/ssa"
)

const atomicPkg = "github.com/ElrondNetwork/elrond-go/core/atomic"

// flagValueAddr returns the address of Flag.value for a *Flag argument (interior or plain).
func (fv *FnVerifier) flagValueAddr(arg Val, t types.Type) *Addr {
	flagT := t.Underlying().(*types.Pointer).Elem()
	st := flagT.Underlying().(*types.Struct)
	if arg.Addr != nil {
		a := *arg.Addr
		a.Path = append(append([]PathEl{}, a.Path...), PathEl{Field: 0, ST: st, STName: flagT})
		a.T = st.Field(0).Type()
		return &a
	}
	return &Addr{Arr: fv.fieldKey(flagT, st, 0), Ref: arg.S, T: st.Field(0).Type()}
}

func init() {
	add := func(name string, m model) {
		if models == nil {
			models = map[string]model{}
		}
		models[name] = m
	}
	// registered lazily because `models` is initialised in another init(); see ensureModels2
	pending = append(pending, func() {
		add("(*math/big.Int).Bytes", model{apply: func(fv *FnVerifier, c *ssa.CallCommon, args []Val, st *State, pos token.Pos, name string) Val {
			fv.bigNonNil(args[0], fv.exprText(c.Args[0]), pos)
			r := fv.freshVal(name, c.Signature().Results().At(0).Type(), st)
			v := fv.loadBig(st, args[0].S)
			fv.q.assume("(= (= (slen " + r.S + ") " + fv.mode.idx(0) + ") (= " + v + " 0))")
			fv.note("model: big.Int.Bytes returns a fresh slice, empty iff the value is 0 (contents abstract)")
			return r
		}, writes: noWrites})
		add("(*"+atomicPkg+".Flag).IsSet", model{apply: func(fv *FnVerifier, c *ssa.CallCommon, args []Val, st *State, pos token.Pos, name string) Val {
			a := fv.flagValueAddr(args[0], c.Args[0].Type())
			v := fv.loadAddr(st, a)
			fv.note("model: core/atomic.Flag.IsSet reads the flag cell (one sequentially consistent atomic step)")
			return Val{T: types.Typ[types.Bool], S: "(= " + v + " " + fv.mode.litI(1, 32) + ")"}
		}, writes: noWrites})
		add("(*"+atomicPkg+".Flag).Unset", model{apply: func(fv *FnVerifier, c *ssa.CallCommon, args []Val, st *State, pos token.Pos, name string) Val {
			a := fv.flagValueAddr(args[0], c.Args[0].Type())
			fv.frameCheck(st, a, pos)
			fv.storeAddr(st, a, fv.mode.litI(0, 32))
			return Val{}
		}, writes: func(fv *FnVerifier) []string { return nil }})
		add("(*"+atomicPkg+".Flag).Set", model{apply: func(fv *FnVerifier, c *ssa.CallCommon, args []Val, st *State, pos token.Pos, name string) Val {
			a := fv.flagValueAddr(args[0], c.Args[0].Type())
			old := fv.q.bind(name+".old", fv.sortOf(types.Typ[types.Uint32]), fv.loadAddr(st, a))
			fv.frameCheck(st, a, pos)
			fv.storeAddr(st, a, fv.mode.litI(1, 32))
			return Val{T: types.Typ[types.Bool], S: "(= " + old + " " + fv.mode.litI(1, 32) + ")"}
		}, writes: func(fv *FnVerifier) []string { return nil }})
		add("(*"+atomicPkg+".Flag).Toggle", model{apply: func(fv *FnVerifier, c *ssa.CallCommon, args []Val, st *State, pos token.Pos, name string) Val {
			a := fv.flagValueAddr(args[0], c.Args[0].Type())
			fv.frameCheck(st, a, pos)
			fv.storeAddr(st, a, "(ite "+args[1].S+" "+fv.mode.litI(1, 32)+" "+fv.mode.litI(0, 32)+")")
			return Val{}
		}, writes: func(fv *FnVerifier) []string { return nil }})
	})
}

var pending []func()

func ensureModels2() {
	for _, f := range pending {
		f()
	}
	pending = nil
}
