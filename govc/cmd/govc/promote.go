package main

// Promotion of single-store local cells. A parameter or local that is captured by a closure lives in a heap cell
// (`t0 = new *T; *t0 = p`). When the cell is stored exactly once (in the function's entry block) and otherwise only
// loaded — by the function and by the closures that capture it — every load yields the stored value, whatever calls and
// loop heads lie in between: nobody else holds the cell's address. Loads then return the stored Val itself, which also
// keeps lock keys and receiver terms syntactically stable.

import (
	"go/token"

	"golang.org/x/tools/go/ssa"
)

// singleStoreCell reports whether alloc is stored exactly once, in the entry block, and never escapes otherwise.
func singleStoreCell(a *ssa.Alloc) bool {
	refs := a.Referrers()
	if refs == nil {
		return false
	}
	stores := 0
	for _, r := range *refs {
		switch x := r.(type) {
		case *ssa.Store:
			if x.Addr != ssa.Value(a) || x.Val == ssa.Value(a) {
				return false
			}
			if x.Block() != a.Parent().Blocks[0] {
				return false
			}
			stores++
		case *ssa.UnOp:
			if x.Op != token.MUL {
				return false
			}
		case *ssa.DebugRef:
		case *ssa.MakeClosure:
			fn, ok := x.Fn.(*ssa.Function)
			if !ok {
				return false
			}
			for i, b := range x.Bindings {
				if b == ssa.Value(a) && !freeVarOnlyLoaded(fn.FreeVars[i], 0) {
					return false
				}
			}
		default:
			return false
		}
	}
	return stores == 1
}

func freeVarOnlyLoaded(v *ssa.FreeVar, depth int) bool {
	if depth > 3 {
		return false
	}
	refs := v.Referrers()
	if refs == nil {
		return true
	}
	for _, r := range *refs {
		switch x := r.(type) {
		case *ssa.UnOp:
			if x.Op != token.MUL {
				return false
			}
		case *ssa.DebugRef:
		case *ssa.MakeClosure:
			fn, ok := x.Fn.(*ssa.Function)
			if !ok {
				return false
			}
			for i, b := range x.Bindings {
				if b == ssa.Value(v) && !freeVarOnlyLoaded(fn.FreeVars[i], depth+1) {
					return false
				}
			}
		default:
			return false
		}
	}
	return true
}

func (fv *FnVerifier) promoteAlloc(a *ssa.Alloc, ref string) {
	if !a.Heap || !singleStoreCell(a) {
		return
	}
	if fv.promo == nil {
		fv.promo = map[string]*Val{}
	}
	fv.promo[ref] = nil
}

// promoStore records the single store; promoLoad answers loads.
func (fv *FnVerifier) promoStore(ref string, v Val) {
	if fv.promo == nil {
		return
	}
	if p, ok := fv.promo[ref]; ok && p == nil {
		vv := v
		fv.promo[ref] = &vv
	}
}

func (fv *FnVerifier) promoLoad(ref string) (Val, bool) {
	if fv.promo == nil {
		return Val{}, false
	}
	if p, ok := fv.promo[ref]; ok && p != nil {
		return *p, true
	}
	return Val{}, false
}
