package main

// Contract files: /repo/<pkg>/contracts_verif.go — comment-only Go files (build tag verif)
// with /*@ ... @*/ blocks.

import (
	"fmt"
	"go/ast"
	"go/parser"
	"go/token"
	"math/big"
	"os"
	"path/filepath"
	"regexp"
	"sort"
	"strings"
)

func bigFromHex(h string) string {
	n := new(big.Int)
	n.SetString(h, 16)
	return n.String()
}

type Clause struct {
	Label string
	E     Expr
	Src   string
	Assumed bool // ensures_assumed: used by callers, not checked against the body
}

type Param struct {
	Name string
	Type string // source text
}

type LoopSpec struct {
	Ordinal    int
	Invariants []Clause
	Decreases  Expr
	Unroll     int
}

type FuncContract struct {
	File      string
	PkgPath   string
	Key       string // "Recv.Name" / "Name" / "iface:pkg.I.Name"
	RecvName  string
	RecvType  string // bare type name (no star)
	RecvPtr   bool
	IsIface   bool
	Name      string
	Params    []Param
	Results   []Param
	Mode      string // "int" (default) or "bv"
	Requires  []Clause
	Ensures   []Clause
	Assigns   []Expr
	AssignsOK bool // an assigns clause was given (possibly "nothing")
	Loops     map[int]*LoopSpec
	Pure      bool // no heap writes; result is a function of arguments (+ heap unless "const")
	Trusted   bool // body not verified: contract assumed
	NoPanic   bool // emit safety obligations (default true)
	MayPanic  bool
	Holds     []string // locks the caller must hold (write)
	HoldsR    []string
	Uses      []string // lemmas/axioms used
	Havoc     []string // havoc_at(callee) entries
	Ghost     []string
	Assumes   []Clause // explicit assumptions at entry (listed in evidence)
	Extern    bool     // contract of a function outside the repository
	Line      int
}

type StructSpec struct {
	Name       string
	PkgPath    string
	Invariants []Clause
	GuardedBy  map[string][]string // mutex field -> guarded fields
	LockInv    map[string][]Clause // mutex field -> monitor invariants
}

type SpecFn struct {
	Name    string
	Params  []Param
	Result  string
	Body    Expr // nil = uninterpreted
	Axioms  []Clause
	PkgPath string
}

type Lemma struct {
	Name    string
	Mode    string
	Vars    []Param
	Hyps    []Clause
	Concl   []Clause
	PkgPath string
	Uses    []string
	Calls   []string // "x = recv.Method(args)" / "x, y = f(args)": contracts of real functions applied to the lemma's variables
	Steps   []LemmaStep // hyps and calls in textual order (a hyp after a call may mention the call's results / the new state)
}

type LemmaStep struct {
	Hyp  *Clause
	Call string
}

type ContractSet struct {
	Funcs   map[string]*FuncContract // key: pkgpath + "#" + Key
	Structs map[string]*StructSpec   // pkgpath#Name
	SpecFns map[string]*SpecFn       // pkgpath#Name, and bare name for global ones
	Lemmas  map[string]*Lemma
	Consts  map[string]string // pkgpath#Name -> decimal
	Axioms  map[string]*Lemma // named global axioms
	Files   []string
}

var clauseKeywords = map[string]bool{
	"func": true, "loop": true, "struct": true, "spec": true, "lemma": true, "axiom": true, "const": true,
	"requires": true, "ensures": true, "ensures_assumed": true, "viewfunc": true, "assigns": true, "invariant": true, "decreases": true, "mode": true,
	"pure": true, "trusted": true, "guarded_by": true, "holds": true, "holds_r": true, "may_panic": true,
	"use": true, "havoc_at": true, "ghost": true, "assume": true, "unroll": true, "vars": true, "hyp": true, "concl": true,
	"nosafety": true, "call": true, "extern": true, "lock_invariant": true,
}

var reBlock = regexp.MustCompile(`(?s)/\*@(.*?)@\*/`)
var reLabel = regexp.MustCompile(`^([^\s:()"]+):\s`)

func stripLineComment(l string) string {
	inStr := false
	for i := 0; i+1 < len(l); i++ {
		if l[i] == '"' {
			inStr = !inStr
		}
		if !inStr && l[i] == '/' && l[i+1] == '/' {
			return l[:i]
		}
	}
	return l
}

type rawClause struct {
	kw   string
	text string
	line int
}

func splitClauses(block string, startLine int) []rawClause {
	var out []rawClause
	lines := strings.Split(block, "\n")
	for i, l := range lines {
		l = stripLineComment(l)
		t := strings.TrimSpace(l)
		if t == "" {
			continue
		}
		first := t
		if j := strings.IndexAny(t, " \t("); j >= 0 {
			first = t[:j]
		}
		if clauseKeywords[first] {
			out = append(out, rawClause{first, strings.TrimSpace(t[len(first):]), startLine + i})
		} else if len(out) > 0 {
			out[len(out)-1].text += " " + t
		}
	}
	return out
}

func parseClause(text string) (Clause, error) {
	label := ""
	if m := reLabel.FindStringSubmatch(text); m != nil && !strings.HasPrefix(text[len(m[1]):], "::") {
		label = m[1]
		text = strings.TrimSpace(text[len(m[0]):])
	}
	e, err := ParseExpr(text)
	if err != nil {
		return Clause{}, err
	}
	return Clause{Label: label, E: e, Src: text}, nil
}

func typeText(fset *token.FileSet, src string, e ast.Expr) string {
	return src[fset.Position(e.Pos()).Offset:fset.Position(e.End()).Offset]
}

func parseFuncHeader(h string) (fc *FuncContract, err error) {
	src := "package p\nfunc " + h + " {}"
	fset := token.NewFileSet()
	f, err := parser.ParseFile(fset, "h.go", src, 0)
	if err != nil {
		return nil, fmt.Errorf("func header %q: %v", h, err)
	}
	fd := f.Decls[0].(*ast.FuncDecl)
	fc = &FuncContract{Name: fd.Name.Name, Loops: map[int]*LoopSpec{}, Mode: "int", NoPanic: true}
	if fd.Recv != nil && len(fd.Recv.List) > 0 {
		r := fd.Recv.List[0]
		if len(r.Names) > 0 {
			fc.RecvName = r.Names[0].Name
		}
		t := r.Type
		if st, ok := t.(*ast.StarExpr); ok {
			fc.RecvPtr = true
			t = st.X
		}
		fc.RecvType = typeText(fset, src, t)
		if strings.Contains(fc.RecvType, ".") {
			fc.IsIface = true
		}
	}
	fields := func(fl *ast.FieldList, prefix string) []Param {
		var ps []Param
		if fl == nil {
			return nil
		}
		n := 0
		for _, f := range fl.List {
			tt := typeText(fset, src, f.Type)
			if len(f.Names) == 0 {
				ps = append(ps, Param{fmt.Sprintf("%s%d", prefix, n), tt})
				n++
			}
			for _, nm := range f.Names {
				ps = append(ps, Param{nm.Name, tt})
				n++
			}
		}
		return ps
	}
	fc.Params = fields(fd.Type.Params, "$p")
	fc.Results = fields(fd.Type.Results, "$r")
	if fc.RecvType != "" {
		fc.Key = fc.RecvType + "." + fc.Name
	} else {
		fc.Key = fc.Name
	}
	return fc, nil
}

func (cs *ContractSet) parseFile(path, pkgPath string) error {
	data, err := os.ReadFile(path)
	if err != nil {
		return err
	}
	src := string(data)
	cs.Files = append(cs.Files, path)
	for _, loc := range reBlock.FindAllStringSubmatchIndex(src, -1) {
		block := src[loc[2]:loc[3]]
		startLine := 1 + strings.Count(src[:loc[2]], "\n")
		clauses := splitClauses(block, startLine)
		var curF *FuncContract
		var curL *LoopSpec
		var curS *StructSpec
		var curSpec *SpecFn
		var curLem *Lemma
		reset := func() { curF, curL, curS, curSpec, curLem = nil, nil, nil, nil, nil }
		for _, rc := range clauses {
			fail := func(err error) error { return fmt.Errorf("%s:%d: %v", path, rc.line, err) }
			switch rc.kw {
			case "extern":
				// extern func pkg.F(params) (results)  /  extern func (z *pkg.T) M(params) (results)
				// contract of a function outside the repository (no body: trusted by nature, listed as assumption)
				reset()
				t := strings.TrimSpace(strings.TrimPrefix(strings.TrimSpace(rc.text), "func"))
				var key string
				if strings.HasPrefix(t, "(") {
					fc, err := parseFuncHeader(t)
					if err != nil {
						return fail(err)
					}
					key = "extern#" + pkgPath + "#" + fc.RecvType + "." + fc.Name // e.g. big.Int.SetString (scoped to the contract file's package)
					fc.IsIface = false
					fc.File, fc.PkgPath, fc.Line, fc.Trusted, fc.Extern = path, pkgPath, rc.line, true, true
					cs.Funcs[key] = fc
					curF = fc
					break
				}
				dot := strings.Index(t, ".")
				paren := strings.Index(t, "(")
				if dot < 0 || paren < 0 || dot > paren {
					return fail(fmt.Errorf("extern func needs a package-qualified name"))
				}
				pkgName := t[:dot]
				fc, err := parseFuncHeader(t[dot+1:])
				if err != nil {
					return fail(err)
				}
				key = "extern#" + pkgPath + "#" + pkgName + "." + fc.Name
				fc.File, fc.PkgPath, fc.Line, fc.Trusted, fc.Extern = path, pkgPath, rc.line, true, true
				cs.Funcs[key] = fc
				curF = fc
			case "func":
				reset()
				fc, err := parseFuncHeader(rc.text)
				if err != nil {
					return fail(err)
				}
				fc.File, fc.PkgPath, fc.Line = path, pkgPath, rc.line
				k := pkgPath + "#" + fc.Key
				if fc.IsIface {
					// interface-level contracts are assumptions about collaborators: scoped to the package whose contract
					// file states them (several packages may state different ones), first one is also the global default
					k = "iface#" + pkgPath + "#" + fc.Key
					if _, have := cs.Funcs["iface#"+fc.Key]; !have {
						cs.Funcs["iface#"+fc.Key] = fc
					}
				}
				if _, dup := cs.Funcs[k]; dup {
					return fail(fmt.Errorf("duplicate contract for %s", k))
				}
				cs.Funcs[k] = fc
				curF = fc
			case "viewfunc":
				// viewfunc <VIEW> <header>: a second contract for a function that already has one, used instead of it by the
				// checks whose spec names this view ("view": "<VIEW>"): each check is self-consistent (the function is verified,
				// and its callers are checked, against the same contract), two properties may describe one function in
				// different ghost vocabularies
				reset()
				t := strings.TrimSpace(rc.text)
				sp := strings.IndexAny(t, " \t")
				if sp < 0 {
					return fail(fmt.Errorf("viewfunc needs a view name and a function header"))
				}
				view := t[:sp]
				fc, err := parseFuncHeader(strings.TrimSpace(t[sp:]))
				if err != nil {
					return fail(err)
				}
				if fc.IsIface {
					return fail(fmt.Errorf("viewfunc is for repository functions, not interface methods"))
				}
				fc.File, fc.PkgPath, fc.Line = path, pkgPath, rc.line
				k := pkgPath + "#" + fc.Key + "@" + view
				if _, dup := cs.Funcs[k]; dup {
					return fail(fmt.Errorf("duplicate contract for %s", k))
				}
				cs.Funcs[k] = fc
				curF = fc
			case "loop":
				// "loop 1" inside a func, or "loop Func#1"
				t := rc.text
				if i := strings.Index(t, "#"); i >= 0 {
					t = t[i+1:]
				}
				var n int
				if _, err := fmt.Sscanf(t, "%d", &n); err != nil || curF == nil {
					return fail(fmt.Errorf("bad loop clause %q", rc.text))
				}
				curL = &LoopSpec{Ordinal: n}
				curF.Loops[n] = curL
			case "struct":
				reset()
				curS = &StructSpec{Name: strings.TrimSpace(rc.text), PkgPath: pkgPath, GuardedBy: map[string][]string{}}
				cs.Structs[pkgPath+"#"+curS.Name] = curS
			case "spec":
				reset()
				// spec fn name(params) result [= expr]
				t := strings.TrimSpace(strings.TrimPrefix(strings.TrimSpace(rc.text), "fn"))
				body := ""
				if i := strings.Index(t, " = "); i >= 0 {
					body = t[i+3:]
					t = t[:i]
				}
				fc, err := parseFuncHeader(t)
				if err != nil {
					return fail(err)
				}
				sf := &SpecFn{Name: fc.Name, Params: fc.Params, PkgPath: pkgPath}
				if len(fc.Results) > 0 {
					sf.Result = fc.Results[0].Type
				}
				if body != "" {
					e, err := ParseExpr(body)
					if err != nil {
						return fail(err)
					}
					sf.Body = e
				}
				cs.SpecFns[pkgPath+"#"+sf.Name] = sf
				curSpec = sf
			case "lemma":
				reset()
				curLem = &Lemma{Name: strings.TrimSpace(rc.text), PkgPath: pkgPath, Mode: "int"}
				cs.Lemmas[pkgPath+"#"+curLem.Name] = curLem
			case "const":
				var name, val string
				parts := strings.SplitN(rc.text, "=", 2)
				if len(parts) != 2 {
					return fail(fmt.Errorf("bad const"))
				}
				name, val = strings.TrimSpace(parts[0]), strings.TrimSpace(parts[1])
				e, err := ParseExpr(val)
				if err != nil {
					return fail(err)
				}
				iv, ok := e.(*EInt)
				if !ok {
					return fail(fmt.Errorf("const must be an integer literal"))
				}
				cs.Consts[pkgPath+"#"+name] = iv.Val
			case "call":
				if curLem == nil {
					return fail(fmt.Errorf("call outside lemma"))
				}
				curLem.Calls = append(curLem.Calls, rc.text)
				curLem.Steps = append(curLem.Steps, LemmaStep{Call: rc.text})
			case "vars":
				if curLem == nil {
					return fail(fmt.Errorf("vars outside lemma"))
				}
				fc, err := parseFuncHeader("f(" + rc.text + ")")
				if err != nil {
					return fail(err)
				}
				curLem.Vars = append(curLem.Vars, fc.Params...)
			case "hyp", "concl":
				if curLem == nil {
					return fail(fmt.Errorf("%s outside lemma", rc.kw))
				}
				c, err := parseClause(rc.text)
				if err != nil {
					return fail(err)
				}
				if rc.kw == "hyp" {
					curLem.Hyps = append(curLem.Hyps, c)
					cc := c
					curLem.Steps = append(curLem.Steps, LemmaStep{Hyp: &cc})
				} else {
					curLem.Concl = append(curLem.Concl, c)
				}
			case "axiom":
				c, err := parseClause(rc.text)
				if err != nil {
					return fail(err)
				}
				if curSpec != nil {
					curSpec.Axioms = append(curSpec.Axioms, c)
				} else {
					return fail(fmt.Errorf("axiom outside spec fn"))
				}
			case "mode":
				m := strings.TrimSpace(rc.text)
				if m != "int" && m != "bv" {
					return fail(fmt.Errorf("bad mode %q", m))
				}
				if curF != nil {
					curF.Mode = m
				} else if curLem != nil {
					curLem.Mode = m
				}
			case "requires", "ensures", "invariant", "assume", "ensures_assumed":
				c, err := parseClause(rc.text)
				if err != nil {
					return fail(err)
				}
				switch {
				case rc.kw == "ensures_assumed" && curF != nil:
					// a post-condition callers may use but that is NOT checked against the body (ghost definitions that
					// another property attaches to this function): an assumption, listed in the evidence
					c.Assumed = true
					curF.Ensures = append(curF.Ensures, c)
				case rc.kw == "invariant" && curL != nil:
					curL.Invariants = append(curL.Invariants, c)
				case rc.kw == "invariant" && curS != nil:
					curS.Invariants = append(curS.Invariants, c)
				case rc.kw == "requires" && curF != nil:
					curF.Requires = append(curF.Requires, c)
				case rc.kw == "ensures" && curF != nil:
					curF.Ensures = append(curF.Ensures, c)
				case rc.kw == "assume" && curF != nil:
					curF.Assumes = append(curF.Assumes, c)
				default:
					return fail(fmt.Errorf("%s clause in wrong context", rc.kw))
				}
			case "decreases":
				e, err := ParseExpr(rc.text)
				if err != nil {
					return fail(err)
				}
				if curL == nil {
					return fail(fmt.Errorf("decreases outside loop"))
				}
				curL.Decreases = e
			case "unroll":
				if curL == nil {
					return fail(fmt.Errorf("unroll outside loop"))
				}
				fmt.Sscanf(rc.text, "%d", &curL.Unroll)
			case "assigns":
				if curF == nil {
					return fail(fmt.Errorf("assigns outside func"))
				}
				curF.AssignsOK = true
				if strings.TrimSpace(rc.text) != "nothing" {
					for _, part := range splitTopLevel(rc.text, ',') {
						e, err := ParseExpr(part)
						if err != nil {
							return fail(err)
						}
						curF.Assigns = append(curF.Assigns, e)
					}
				}
			case "pure":
				if curF != nil {
					curF.Pure = true
					curF.AssignsOK = true
				}
			case "trusted":
				if curF != nil {
					curF.Trusted = true
				}
			case "nosafety":
				if curF != nil {
					curF.NoPanic = false
				}
			case "may_panic":
				if curF != nil {
					curF.MayPanic = true
				}
			case "holds", "holds_r":
				t := strings.Trim(rc.text, "() ")
				if curF != nil {
					if rc.kw == "holds" {
						curF.Holds = append(curF.Holds, t)
					} else {
						curF.HoldsR = append(curF.HoldsR, t)
					}
				}
			case "lock_invariant":
				// lock_invariant <mutexField>: [label:] expr — monitor invariant: assumed when the mutex is acquired,
				// proved before a write-locked section releases it
				if curS == nil {
					return fail(fmt.Errorf("lock_invariant outside struct"))
				}
				parts := strings.SplitN(rc.text, ":", 2)
				if len(parts) != 2 {
					return fail(fmt.Errorf("bad lock_invariant"))
				}
				c, err := parseClause(strings.TrimSpace(parts[1]))
				if err != nil {
					return fail(err)
				}
				if curS.LockInv == nil {
					curS.LockInv = map[string][]Clause{}
				}
				mu := strings.TrimSpace(parts[0])
				curS.LockInv[mu] = append(curS.LockInv[mu], c)
			case "guarded_by":
				if curS == nil {
					return fail(fmt.Errorf("guarded_by outside struct"))
				}
				parts := strings.SplitN(rc.text, ":", 2)
				if len(parts) != 2 {
					return fail(fmt.Errorf("bad guarded_by"))
				}
				mu := strings.TrimSpace(parts[0])
				for _, f := range strings.Split(parts[1], ",") {
					curS.GuardedBy[mu] = append(curS.GuardedBy[mu], strings.TrimSpace(f))
				}
			case "use":
				t := strings.TrimSpace(rc.text)
				t = strings.TrimPrefix(t, "lemma ")
				t = strings.TrimPrefix(t, "axiom ")
				if curF != nil {
					curF.Uses = append(curF.Uses, strings.TrimSpace(t))
				} else if curLem != nil {
					curLem.Uses = append(curLem.Uses, strings.TrimSpace(t))
				}
			case "havoc_at":
				if curF != nil {
					curF.Havoc = append(curF.Havoc, strings.Trim(rc.text, "() "))
				}
			case "ghost":
				if curF != nil {
					curF.Ghost = append(curF.Ghost, rc.text)
				}
			}
		}
	}
	return nil
}

func splitTopLevel(s string, sep byte) []string {
	var out []string
	depth := 0
	start := 0
	for i := 0; i < len(s); i++ {
		switch s[i] {
		case '(', '[':
			depth++
		case ')', ']':
			depth--
		default:
			if s[i] == sep && depth == 0 {
				out = append(out, strings.TrimSpace(s[start:i]))
				start = i + 1
			}
		}
	}
	out = append(out, strings.TrimSpace(s[start:]))
	return out
}

const repoModule = "github.com/ElrondNetwork/elrond-go"

// LoadContracts parses every contracts_verif.go under repoDir.
func LoadContracts(repoDir string) (*ContractSet, error) {
	cs := &ContractSet{Funcs: map[string]*FuncContract{}, Structs: map[string]*StructSpec{}, SpecFns: map[string]*SpecFn{},
		Lemmas: map[string]*Lemma{}, Consts: map[string]string{}, Axioms: map[string]*Lemma{}}
	var files []string
	filepath.Walk(repoDir, func(p string, info os.FileInfo, err error) error {
		if err != nil {
			return nil
		}
		if info.IsDir() && (info.Name() == ".git" || info.Name() == "vendor") {
			return filepath.SkipDir
		}
		if !info.IsDir() && info.Name() == "contracts_verif.go" {
			files = append(files, p)
		}
		return nil
	})
	sort.Strings(files)
	for _, f := range files {
		rel, _ := filepath.Rel(repoDir, filepath.Dir(f))
		pkgPath := repoModule
		if rel != "." {
			pkgPath += "/" + filepath.ToSlash(rel)
		}
		if err := cs.parseFile(f, pkgPath); err != nil {
			return nil, err
		}
	}
	return cs, nil
}
