package main

// Ghost "visited" set of a map range loop. `for k, v := range m` yields every key that is in the map when the loop starts
// and is not deleted before it is reached, exactly once (Go spec). The set of keys already yielded is a ghost array
// `ghost:seen:<range>`: empty at the range statement, havoc'd at the loop head (so loop invariants must describe it),
// extended at every successful Next, and on exhaustion (Next answers !ok) every key that was in the map at the start and
// still is has been visited. Contracts read it with `visited(k)` (or `visited(k, N)` for the range loop N when the
// function has several).

import (
	"go/types"

	"golang.org/x/tools/go/ssa"
)

func (fv *FnVerifier) seenKey(rng *ssa.Range) string {
	return "ghost:seen:" + rng.Name()
}

func (fv *FnVerifier) rangeStart(rng *ssa.Range, mt *types.Map, mp Val, st *State) {
	key := fv.seenKey(rng)
	ksort := fv.sortOf(mt.Key())
	fv.arrSort[key] = "(Array " + ksort + " Bool)"
	fv.heapSet(st, key, "((as const (Array "+ksort+" Bool)) false)")
	ks := fv.mapKeys(mt)
	if fv.rangeDom0 == nil {
		fv.rangeDom0 = map[*ssa.Range]string{}
	}
	fv.rangeDom0[rng] = fv.q.bind(rng.Name()+".dom0", "(Array "+ksort+" Bool)", "(select "+fv.heapGet(st, ks[0])+" "+mp.S+")")
}

// rangeStep is called at every Next of a map range: ok, k are the step's results.
func (fv *FnVerifier) rangeStep(rng *ssa.Range, mt *types.Map, mp Val, ok string, k Val, st *State) {
	key := fv.seenKey(rng)
	if _, have := fv.arrSort[key]; !have {
		return
	}
	ksort := fv.sortOf(mt.Key())
	seen := fv.heapGet(st, key)
	ks := fv.mapKeys(mt)
	dom0, have := fv.rangeDom0[rng]
	if !have {
		return
	}
	// a yielded key was not yielded before and was in the map when the loop started
	fv.q.assume("(=> " + ok + " (and (not (select " + seen + " " + k.S + ")) (select " + dom0 + " " + k.S + ")))")
	// exhaustion
	j := fv.q.fresh("rk")
	domNow := "(select " + fv.heapGet(st, ks[0]) + " " + mp.S + ")"
	fv.q.assume("(=> (not " + ok + ") (forall ((" + j + " " + ksort + ")) (! (=> (and (select " + dom0 + " " + j + ") (select " + domNow + " " + j + ")) (select " + seen + " " + j + ")) :pattern ((select " + seen + " " + j + ")))))")
	fv.heapSet(st, key, "(ite "+ok+" (store "+seen+" "+k.S+" true) "+seen+")")
}

// havocSeenAtHead: the visited sets of the range loops headed by h are loop-carried state.
func (fv *FnVerifier) havocSeenAtHead(h *ssa.BasicBlock, st *State) {
	for _, in := range h.Instrs {
		if nx, ok := in.(*ssa.Next); ok && !nx.IsString {
			if rng, ok := nx.Iter.(*ssa.Range); ok {
				key := fv.seenKey(rng)
				if _, have := fv.arrSort[key]; have {
					fv.heapHavoc(st, key)
				}
			}
		}
	}
}

// rangeForVisited picks the range statement `visited` talks about: the only map range of the function, or the one whose
// Next sits in the head of loop number n.
func (fv *FnVerifier) rangeForVisited(n int) *ssa.Range {
	var all []*ssa.Range
	for _, b := range fv.fn.Blocks {
		for _, in := range b.Instrs {
			if nx, ok := in.(*ssa.Next); ok && !nx.IsString {
				if rng, ok := nx.Iter.(*ssa.Range); ok {
					if n > 0 && fv.loopHeads[b] == n {
						return rng
					}
					all = append(all, rng)
				}
			}
		}
	}
	if n <= 0 && len(all) == 1 {
		return all[0]
	}
	return nil
}
