package main

import (
	"fmt"
	"go/constant"
	"go/token"
	"go/types"
	"math/big"
	"strings"

	"golang.org/x/tools/go/ssa"
)

// value returns the symbolic value of an SSA value.
func (fv *FnVerifier) value(v ssa.Value, st *State) Val {
	switch x := v.(type) {
	case *ssa.Const:
		return fv.constVal(x)
	case *ssa.Global:
		key := fv.globalKey(x)
		return Val{T: x.Type(), Addr: &Addr{Arr: key, Glob: true, T: x.Type().(*types.Pointer).Elem()}}
	case *ssa.Function:
		return Val{T: x.Type(), Fn: x, S: "0"}
	case *ssa.Builtin:
		return Val{T: x.Type(), S: "0"}
	}
	if r, ok := fv.env[v]; ok {
		return r
	}
	unsupported("value %s (%T) not available", v.Name(), v)
	return Val{}
}

func (fv *FnVerifier) constVal(c *ssa.Const) Val {
	t := c.Type()
	if c.Value == nil {
		// nil / zero value
		if _, ok := t.Underlying().(*types.Basic); ok && t.Underlying().(*types.Basic).Kind() == types.UntypedNil {
			return Val{T: t, S: "0", IsNil: true}
		}
		return Val{T: t, S: fv.zeroOf(t)}
	}
	switch u := t.Underlying().(type) {
	case *types.Basic:
		switch {
		case u.Info()&types.IsBoolean != 0:
			return Val{T: t, S: fmt.Sprint(constant.BoolVal(c.Value))}
		case u.Info()&types.IsInteger != 0:
			b, _, _ := intInfo(u)
			iv, _ := new(big.Int).SetString(constant.ToInt(c.Value).ExactString(), 10)
			return Val{T: t, S: fv.mode.lit(iv, b), Const: iv}
		case u.Info()&types.IsFloat != 0:
			b, _ := isFloat(u)
			f, _ := constant.Float64Val(c.Value)
			return Val{T: t, S: fpLit(f, b)}
		case u.Info()&types.IsString != 0:
			return Val{T: t, S: fv.strLit(constant.StringVal(c.Value))}
		}
	}
	unsupported("constant %s of type %s", c, t)
	return Val{}
}

func fpLit(f float64, bits int) string {
	// exact: use the rational form via big.Float text with to_fp from real is inexact; use bit pattern
	if bits == 32 {
		return fmt.Sprintf("((_ to_fp 8 24) #x%08x)", float32bits(float32(f)))
	}
	return fmt.Sprintf("((_ to_fp 11 53) #x%016x)", float64bits(f))
}

// plainRef returns the Int term of a pointer value (materialising interior addresses is unsupported).
func (fv *FnVerifier) plainRef(v Val) string {
	if v.Addr != nil {
		unsupported("interior pointer used as a value")
	}
	return v.S
}

func (fv *FnVerifier) nilCheck(ref string, what string, pos token.Pos, x ssa.Value) {
	if x != nil {
		if _, ok := x.(*ssa.Alloc); ok {
			return
		}
		if len(fv.fn.Params) > 0 && fv.fn.Signature.Recv() != nil && x == fv.fn.Params[0] {
			return // receiver assumed non-nil (implicit precondition, listed)
		}
	}
	if !fv.fc.NoPanic {
		return
	}
	fv.oblige("nil", what, fv.reach[fv.curBlock], "(not (= "+ref+" 0))", pos, "nil dereference")
	fv.q.assume("(=> " + fv.reach[fv.curBlock] + " (not (= " + ref + " 0)))")
}

func (fv *FnVerifier) exprText(v ssa.Value) string {
	// best-effort short source text for naming
	switch x := v.(type) {
	case *ssa.Parameter:
		return x.Name()
	case *ssa.FieldAddr:
		st := x.X.Type().Underlying().(*types.Pointer).Elem().Underlying().(*types.Struct)
		return fv.exprText(x.X) + "." + st.Field(x.Field).Name()
	case *ssa.Field:
		st := x.X.Type().Underlying().(*types.Struct)
		return fv.exprText(x.X) + "." + st.Field(x.Field).Name()
	case *ssa.UnOp:
		if x.Op == token.MUL {
			return fv.exprText(x.X)
		}
	case *ssa.Phi:
		if x.Comment != "" {
			return x.Comment
		}
	case *ssa.Const:
		return x.Value.String()
	case *ssa.Call:
		if f := x.Common().StaticCallee(); f != nil {
			return f.Name() + "()"
		}
		if x.Common().IsInvoke() {
			return fv.exprText(x.Common().Value) + "." + x.Common().Method.Name() + "()"
		}
	case *ssa.IndexAddr:
		return fv.exprText(x.X) + "[" + fv.exprText(x.Index) + "]"
	case *ssa.Extract:
		return fv.exprText(x.Tuple)
	case *ssa.Slice:
		return fv.exprText(x.X) + "[:]"
	case *ssa.Convert:
		return fv.exprText(x.X)
	case *ssa.ChangeType:
		return fv.exprText(x.X)
	case *ssa.BinOp:
		return fv.exprText(x.X) + x.Op.String() + fv.exprText(x.Y)
	case *ssa.Global:
		return x.Name()
	case *ssa.Alloc:
		if x.Comment != "" {
			return x.Comment
		}
	case *ssa.Lookup:
		return fv.exprText(x.X) + "[" + fv.exprText(x.Index) + "]"
	}
	return "_"
}

func (fv *FnVerifier) setEnv(v ssa.Value, val Val) {
	// bind scalar terms to named constants to keep formulas small
	if val.S != "" && val.Addr == nil && val.Tup == nil && len(val.S) > 40 {
		val.S = fv.q.bind(v.Name(), fv.sortOf(val.T), val.S)
	}
	fv.env[v] = val
}

func (fv *FnVerifier) execInstr(in ssa.Instruction, st *State) {
	fv.curInstr = in
	reach := fv.reach[fv.curBlock]
	m := fv.mode
	switch x := in.(type) {
	case *ssa.DebugRef:
		return
	case *ssa.Alloc:
		t := x.Type().(*types.Pointer).Elem()
		r := fv.allocRef(st)
		if isBigInt(t) {
			fv.storeBig(st, r, "0")
		} else if isOpaqueNamed(t) {
		} else {
			fv.storePtr(st, r, t, fv.zeroOf(t))
		}
		fv.env[x] = Val{T: x.Type(), S: r}
		fv.promoteAlloc(x, r)
	case *ssa.FieldAddr:
		base := fv.value(x.X, st)
		pt := x.X.Type().Underlying().(*types.Pointer).Elem()
		stt := pt.Underlying().(*types.Struct)
		ft := stt.Field(x.Field).Type()
		if base.Addr != nil {
			a := *base.Addr
			a.Path = append(append([]PathEl{}, a.Path...), PathEl{Field: x.Field, ST: stt, STName: pt})
			a.T = ft
			fv.env[x] = Val{T: x.Type(), Addr: &a}
			return
		}
		fv.nilCheck(base.S, fv.exprText(x.X), x.Pos(), x.X)
		fv.env[x] = Val{T: x.Type(), Addr: fv.dualFieldAddr(&Addr{Arr: fv.fieldKey(pt, stt, x.Field), Ref: base.S, T: ft, Owner: pt, FieldName: stt.Field(x.Field).Name()}, base.S, pt, stt, x.Field)}
	case *ssa.Field:
		base := fv.value(x.X, st)
		stt := x.X.Type().Underlying().(*types.Struct)
		fv.setEnv(x, Val{T: x.Type(), S: "(" + fv.fieldAcc(x.X.Type(), stt, x.Field) + " " + base.S + ")"})
	case *ssa.IndexAddr:
		base := fv.value(x.X, st)
		idx := fv.value(x.Index, st)
		i := fv.toIdx(idx)
		switch u := x.X.Type().Underlying().(type) {
		case *types.Slice:
			fv.boundsCheck(i, "(slen "+base.S+")", fv.exprText(x.X)+"["+fv.exprText(x.Index)+"]", x.Pos(), idx)
			off := "(+ (soff " + base.S + ") " + i + ")"
			if m.BV {
				off = "(bvadd (soff " + base.S + ") " + i + ")"
			}
			fv.env[x] = Val{T: x.Type(), Addr: &Addr{Arr: fv.elemsKey(u.Elem()), Ref: "(sbase " + base.S + ")", Idx: off, T: u.Elem()}}
		case *types.Pointer:
			arr := u.Elem().Underlying().(*types.Array)
			fv.boundsCheck(i, m.idx(arr.Len()), fv.exprText(x.X)+"["+fv.exprText(x.Index)+"]", x.Pos(), idx)
			if base.Addr != nil {
				a := *base.Addr
				a.Path = append(append([]PathEl{}, a.Path...), PathEl{IsIndex: true, Index: i, STName: u.Elem()})
				a.T = arr.Elem()
				fv.env[x] = Val{T: x.Type(), Addr: &a}
			} else {
				fv.nilCheck(base.S, fv.exprText(x.X), x.Pos(), x.X)
				fv.env[x] = Val{T: x.Type(), Addr: &Addr{Arr: fv.elemsKey(arr.Elem()), Ref: base.S, Idx: i, T: arr.Elem()}}
			}
		default:
			unsupported("IndexAddr on %s", x.X.Type())
		}
	case *ssa.Index:
		base := fv.value(x.X, st)
		idx := fv.value(x.Index, st)
		i := fv.toIdx(idx)
		switch u := x.X.Type().Underlying().(type) {
		case *types.Array:
			fv.boundsCheck(i, m.idx(u.Len()), fv.exprText(x.X)+"[i]", x.Pos(), idx)
			fv.setEnv(x, Val{T: x.Type(), S: "(select " + base.S + " " + i + ")"})
		case *types.Basic: // string
			fv.boundsCheck(i, "(strlen "+base.S+")", fv.exprText(x.X)+"[i]", x.Pos(), idx)
			fv.setEnv(x, Val{T: x.Type(), S: "(select (sarr " + base.S + ") " + i + ")"})
		default:
			unsupported("Index on %s", x.X.Type())
		}
	case *ssa.UnOp:
		fv.execUnOp(x, st)
	case *ssa.Store:
		a := fv.value(x.Addr, st)
		v := fv.value(x.Val, st)
		pt := x.Addr.Type().Underlying().(*types.Pointer).Elem()
		if isBigInt(pt) {
			unsupported("store of big.Int struct")
		}
		vs := fv.scalar(v, pt)
		if a.Addr != nil {
			fv.lockCheck(st, a.Addr, true, x.Pos())
			fv.frameCheck(st, a.Addr, x.Pos())
			fv.storeAddr(st, a.Addr, vs)
		} else {
			fv.nilCheck(a.S, fv.exprText(x.Addr), x.Pos(), x.Addr)
			fv.frameCheckRef(st, a.S, pt, x.Pos())
			fv.storePtr(st, a.S, pt, vs)
			fv.promoStore(a.S, v)
		}
	case *ssa.BinOp:
		fv.execBinOp(x, st)
	case *ssa.Phi:
		// non-loop-head phis are handled at block entry
	case *ssa.Convert:
		fv.execConvert(x, st)
	case *ssa.ChangeType:
		v := fv.value(x.X, st)
		v.T = x.Type()
		fv.env[x] = v
	case *ssa.ChangeInterface:
		v := fv.value(x.X, st)
		v.T = x.Type()
		fv.env[x] = v
	case *ssa.MakeInterface:
		v := fv.value(x.X, st)
		fv.setEnv(x, Val{T: x.Type(), S: fv.makeIface(v, x.X.Type())})
	case *ssa.TypeAssert:
		fv.execTypeAssert(x, st)
	case *ssa.Extract:
		t := fv.value(x.Tuple, st)
		if x.Index >= len(t.Tup) {
			unsupported("extract out of tuple")
		}
		fv.env[x] = t.Tup[x.Index]
	case *ssa.Slice:
		fv.execSlice(x, st)
	case *ssa.MakeSlice:
		ln := fv.toIdx(fv.value(x.Len, st))
		cp := fv.toIdx(fv.value(x.Cap, st))
		elem := x.Type().Underlying().(*types.Slice).Elem()
		if fv.fc.NoPanic {
			fv.oblige("bounds", "make:"+fv.exprText(x.Len), reach, fv.leIdx(m.idx(0), ln)+"", x.Pos(), "make with negative length")
		}
		r := fv.allocRef(st)
		k := fv.elemsKey(elem)
		fv.heapSet(st, k, fmt.Sprintf("(store %s %s ((as const (Array %s %s)) %s))", fv.heapGet(st, k), r, m.idxSort(), fv.sortOf(elem), fv.zeroOf(elem)))
		fv.setEnv(x, Val{T: x.Type(), S: fmt.Sprintf("(mk-slice %s %s %s %s)", r, m.idx(0), ln, cp)})
	case *ssa.MakeMap:
		fv.execMakeMap(x, st)
	case *ssa.Lookup:
		fv.execLookup(x, st)
	case *ssa.MapUpdate:
		fv.execMapUpdate(x, st)
	case *ssa.Range:
		fv.execRange(x, st)
	case *ssa.Next:
		fv.execNext(x, st)
	case *ssa.Call:
		fv.execCall(x, st)
	case *ssa.Defer:
		fv.defers = append(fv.defers, x)
	case *ssa.RunDefers:
		for i := len(fv.defers) - 1; i >= 0; i-- {
			d := fv.defers[i]
			if !d.Block().Dominates(fv.curBlock) {
				if !blockReaches(d.Block(), fv.curBlock) {
					continue // registered after this return (early-return shape): not executed on this path
				}
				unsupported("conditional defer")
			}
			fv.execCallCommon(d.Common(), nil, st, d.Pos())
		}
	case *ssa.MakeClosure:
		var binds []Val
		for _, b := range x.Bindings {
			binds = append(binds, fv.value(b, st))
		}
		fv.env[x] = Val{T: x.Type(), Fn: x.Fn.(*ssa.Function), Binds: binds, S: "0"}
	case *ssa.Panic:
		if fv.fc.NoPanic && !fv.fc.MayPanic {
			fv.oblige("panic", "explicit", reach, "false", x.Pos(), "explicit panic reachable")
		}
		st.dead = true
	case *ssa.If, *ssa.Jump, *ssa.Return:
		// handled by the block driver
	case *ssa.Go:
		if fv.havocAllowed("go") {
			fv.note("havoc_at(go): goroutine launch abstracted: " + fv.posString(x.Pos()))
			fv.havocAll(st)
			return
		}
		unsupported("go statement")
	default:
		unsupported("instruction %T", in)
	}
}

func (fv *FnVerifier) havocAllowed(what string) bool {
	for _, h := range fv.fc.Havoc {
		if h == what {
			return true
		}
	}
	return false
}

// scalar renders v as an SMT term of Go type t (coercing nil / materialising nothing).
func (fv *FnVerifier) scalar(v Val, t types.Type) string {
	if v.Addr != nil {
		if p, ok := fv.materialize(v.Addr); ok {
			return p
		}
		unsupported("interior pointer stored or passed")
	}
	if v.IsNil {
		return fv.zeroOf(t)
	}
	if v.Tup != nil {
		unsupported("tuple as scalar")
	}
	return v.S
}

func (fv *FnVerifier) toIdx(v Val) string {
	b, s, ok := intInfo(v.T)
	if !ok {
		unsupported("index of type %s", v.T)
	}
	return fv.mode.convInt(v.S, b, s, 64, true)
}

func (fv *FnVerifier) leIdx(a, b string) string { return fv.mode.cmp("<=", a, b, true) }
func (fv *FnVerifier) ltIdx(a, b string) string { return fv.mode.cmp("<", a, b, true) }

func (fv *FnVerifier) boundsCheck(i, n, what string, pos token.Pos, idxVal Val) {
	if !fv.fc.NoPanic {
		return
	}
	reach := fv.reach[fv.curBlock]
	goal := "(and " + fv.leIdx(fv.mode.idx(0), i) + " " + fv.ltIdx(i, n) + ")"
	if idxVal.Const != nil && !strings.Contains(n, "(") {
		// constant index into constant-length array
		var nn big.Int
		if _, ok := nn.SetString(n, 10); ok && idxVal.Const.Sign() >= 0 && idxVal.Const.Cmp(&nn) < 0 {
			return
		}
	}
	fv.oblige("bounds", what, reach, goal, pos, "index out of range")
	fv.q.assume("(=> " + reach + " " + goal + ")")
}

func (fv *FnVerifier) execUnOp(x *ssa.UnOp, st *State) {
	v := fv.value(x.X, st)
	m := fv.mode
	switch x.Op {
	case token.MUL:
		pt := x.X.Type().Underlying().(*types.Pointer).Elem()
		if v.Addr != nil {
			fv.lockCheck(st, v.Addr, false, x.Pos())
			if isBigInt(pt) {
				unsupported("load of big.Int struct")
			}
			s := fv.loadAddr(st, v.Addr)
			r := Val{T: x.Type(), S: fv.q.bind(x.Name(), fv.sortOf(x.Type()), s)}
			fv.q.assume(fv.wf(r.S, x.Type(), st))
			if v.Addr.Glob && len(v.Addr.Path) == 0 && types.Identical(x.Type(), types.Universe.Lookup("error").Type()) {
				fv.sentinelError(st, v.Addr.Arr)
			}
			fv.env[x] = r
			return
		}
		if pv, ok := fv.promoLoad(v.S); ok {
			fv.env[x] = pv
			return
		}
		fv.nilCheck(v.S, fv.exprText(x.X), x.Pos(), x.X)
		r := fv.loadPtr(st, v.S, pt)
		r.S = fv.q.bind(x.Name(), fv.sortOf(x.Type()), r.S)
		fv.q.assume(fv.wf(r.S, x.Type(), st))
		fv.env[x] = r
	case token.NOT:
		fv.setEnv(x, Val{T: x.Type(), S: "(not " + v.S + ")"})
	case token.SUB:
		if b, s, ok := intInfo(x.Type()); ok {
			if m.BV {
				fv.setEnv(x, Val{T: x.Type(), S: "(bvneg " + v.S + ")"})
			} else {
				fv.setEnv(x, Val{T: x.Type(), S: m.wrap1("(- "+v.S+")", b, s)})
			}
			return
		}
		if _, ok := isFloat(x.Type()); ok {
			fv.setEnv(x, Val{T: x.Type(), S: "(fp.neg " + v.S + ")"})
			return
		}
		unsupported("negation of %s", x.Type())
	case token.XOR:
		b, s, ok := intInfo(x.Type())
		if !ok {
			unsupported("bitnot of %s", x.Type())
		}
		if m.BV {
			fv.setEnv(x, Val{T: x.Type(), S: "(bvnot " + v.S + ")"})
		} else if s {
			fv.setEnv(x, Val{T: x.Type(), S: "(- (- " + v.S + ") 1)"})
		} else {
			fv.setEnv(x, Val{T: x.Type(), S: "(- " + new(big.Int).Sub(pow2(b), big.NewInt(1)).String() + " " + v.S + ")"})
		}
	default:
		unsupported("unary %s", x.Op)
	}
}

func isPow2Minus1(c *big.Int) (int, bool) {
	if c.Sign() < 0 {
		return 0, false
	}
	x := new(big.Int).Add(c, big.NewInt(1))
	if x.BitLen() > 0 && new(big.Int).And(x, c).Sign() == 0 {
		return x.BitLen() - 1, true
	}
	return 0, false
}

func (fv *FnVerifier) execBinOp(x *ssa.BinOp, st *State) {
	a := fv.value(x.X, st)
	b := fv.value(x.Y, st)
	reach := fv.reach[fv.curBlock]
	m := fv.mode
	op := x.Op.String()
	xt := x.X.Type()
	// comparisons
	switch x.Op {
	case token.EQL, token.NEQ, token.LSS, token.LEQ, token.GTR, token.GEQ:
		var s string
		if bits, signed, ok := intInfo(xt); ok {
			_ = bits
			s = m.cmp(op, a.S, b.S, signed)
		} else if _, ok := isFloat(xt); ok {
			f := map[string]string{"==": "fp.eq", "<": "fp.lt", "<=": "fp.leq", ">": "fp.gt", ">=": "fp.geq"}[op]
			if op == "!=" {
				s = "(not (fp.eq " + a.S + " " + b.S + "))"
			} else {
				s = "(" + f + " " + a.S + " " + b.S + ")"
			}
		} else {
			if op != "==" && op != "!=" {
				if bt, ok := xt.Underlying().(*types.Basic); ok && bt.Kind() == types.String {
					fv.q.declareFun("str.lt", []string{"Str", "Str"}, "Bool")
					switch op {
					case "<":
						s = "(str.lt " + a.S + " " + b.S + ")"
					case ">":
						s = "(str.lt " + b.S + " " + a.S + ")"
					case "<=":
						s = "(not (str.lt " + b.S + " " + a.S + "))"
					case ">=":
						s = "(not (str.lt " + a.S + " " + b.S + "))"
					}
					fv.note("model: string ordering is an uninterpreted strict order")
					fv.setEnv(x, Val{T: x.Type(), S: s})
					return
				}
				unsupported("ordered comparison on %s", xt)
			}
			var eq string
			switch xt.Underlying().(type) {
			case *types.Slice:
				// comparison with nil only
				other := a
				if a.IsNil || isZeroSliceConst(x.X) {
					other = b
				}
				eq = "(= (sbase " + other.S + ") 0)"
			default:
				if a.Addr != nil || b.Addr != nil {
					unsupported("comparison of interior pointers")
				}
				as, bs := a.S, b.S
				if a.IsNil {
					as = fv.zeroOf(xt)
				}
				if b.IsNil {
					bs = fv.zeroOf(x.Y.Type())
				}
				if _, isI := xt.Underlying().(*types.Interface); isI && (isNilConst(x.X) || isNilConst(x.Y)) {
					o := as
					if isNilConst(x.X) {
						o = bs
					}
					eq = "(= (itag " + o + ") 0)"
				} else {
					eq = "(= " + as + " " + bs + ")"
				}
			}
			if op == "!=" {
				s = "(not " + eq + ")"
			} else {
				s = eq
			}
		}
		fv.setEnv(x, Val{T: x.Type(), S: s})
		return
	}
	// boolean / string / float arithmetic
	if bt, ok := xt.Underlying().(*types.Basic); ok && bt.Kind() == types.String && x.Op == token.ADD {
		fv.setEnv(x, Val{T: x.Type(), S: fv.strConcat(a.S, b.S)})
		return
	}
	if bits, ok := isFloat(x.Type()); ok {
		_ = bits
		f := map[string]string{"+": "fp.add", "-": "fp.sub", "*": "fp.mul", "/": "fp.div"}[op]
		if f == "" {
			unsupported("float op %s", op)
		}
		fv.setEnv(x, Val{T: x.Type(), S: "(" + f + " RNE " + a.S + " " + b.S + ")"})
		return
	}
	if bt, ok := x.Type().Underlying().(*types.Basic); ok && bt.Info()&types.IsBoolean != 0 {
		switch x.Op {
		case token.AND, token.LAND:
			fv.setEnv(x, Val{T: x.Type(), S: "(and " + a.S + " " + b.S + ")"})
		case token.OR, token.LOR:
			fv.setEnv(x, Val{T: x.Type(), S: "(or " + a.S + " " + b.S + ")"})
		default:
			unsupported("bool op %s", op)
		}
		return
	}
	bits, signed, ok := intInfo(x.Type())
	if !ok {
		unsupported("binop %s on %s", op, x.Type())
	}
	switch x.Op {
	case token.SHL, token.SHR:
		fv.setEnv(x, Val{T: x.Type(), S: fv.shift(x.Op == token.SHL, a, b, bits, signed, x.Y.Type())})
		return
	case token.QUO, token.REM:
		zero := m.litI(0, bits)
		if fv.fc.NoPanic {
			fv.oblige("div0", fv.exprText(x.Y), reach, "(not (= "+b.S+" "+zero+"))", x.Pos(), "integer division by zero")
		}
		fv.q.assume("(=> " + reach + " (not (= " + b.S + " " + zero + ")))")
	case token.AND, token.OR, token.XOR, token.AND_NOT:
		if !m.BV {
			// constant masks
			if b.Const != nil || a.Const != nil {
				c, o := b.Const, a
				if c == nil {
					c, o = a.Const, b
				}
				if x.Op == token.AND && !signed {
					if k, ok := isPow2Minus1(c); ok {
						fv.setEnv(x, Val{T: x.Type(), S: "(mod " + o.S + " " + pow2(k).String() + ")"})
						return
					}
					if c.BitLen() > 0 && new(big.Int).And(c, new(big.Int).Sub(c, big.NewInt(1))).Sign() == 0 {
						k := c.BitLen() - 1
						fv.setEnv(x, Val{T: x.Type(), S: fmt.Sprintf("(* %s (mod (div %s %s) 2))", c, o.S, pow2(k))})
						return
					}
				}
			}
		}
	}
	res, _, facts, err := m.arith(op, a.S, b.S, bits, signed)
	if err != nil {
		unsupported("%v", err)
	}
	if !m.BV {
		if f, ok := map[string]string{"&": "bitand", "|": "bitor", "^": "bitxor", "&^": "bitandnot"}[op]; ok {
			fv.q.declareFun(fmt.Sprintf("%s%d", f, bits), []string{"Int", "Int"}, "Int")
			fv.note("int mode: general bitwise " + op + " is an uninterpreted function with sound bounds (use mode bv for bit-exact reasoning)")
		}
	}
	r := fv.q.bind(x.Name(), fv.sortOf(x.Type()), res)
	for _, f := range facts {
		fv.q.assume(strings.ReplaceAll(f, res, r))
	}
	fv.env[x] = Val{T: x.Type(), S: r}
}

func isNilConst(v ssa.Value) bool {
	c, ok := v.(*ssa.Const)
	return ok && c.Value == nil
}

func isZeroSliceConst(v ssa.Value) bool {
	c, ok := v.(*ssa.Const)
	return ok && c.Value == nil
}

func (fv *FnVerifier) shift(left bool, a, b Val, bits int, signed bool, countT types.Type) string {
	m := fv.mode
	cb, cs, _ := intInfo(countT)
	if m.BV {
		// bring count to width `bits`, saturating
		cnt := b.S
		var c string
		if cb == bits {
			c = cnt
		} else if cb < bits {
			c = fmt.Sprintf("((_ zero_extend %d) %s)", bits-cb, cnt)
		} else {
			c = fmt.Sprintf("(ite (bvuge %s %s) %s ((_ extract %d 0) %s))", cnt, m.litI(int64(bits), cb), m.litI(int64(bits), bits), bits-1, cnt)
		}
		_ = cs
		if left {
			return "(bvshl " + a.S + " " + c + ")"
		}
		if signed {
			return "(bvashr " + a.S + " " + c + ")"
		}
		return "(bvlshr " + a.S + " " + c + ")"
	}
	if b.Const != nil {
		k := int(b.Const.Int64())
		if k >= bits {
			if left || !signed {
				return "0"
			}
			return "(ite (< " + a.S + " 0) (- 1) 0)"
		}
		if left {
			return m.wrap("(* "+a.S+" "+pow2(k).String()+")", bits, signed)
		}
		return "(div " + a.S + " " + pow2(k).String() + ")"
	}
	// symbolic count: pow2 via ite chain
	p := "0"
	for k := bits - 1; k >= 0; k-- {
		p = fmt.Sprintf("(ite (= %s %d) %s %s)", b.S, k, pow2(k), p)
	}
	pn := fv.q.bind("pow2", "Int", p)
	if left {
		return "(ite (>= " + b.S + " " + fmt.Sprint(bits) + ") 0 " + m.wrap("(* "+a.S+" "+pn+")", bits, signed) + ")"
	}
	if signed {
		return "(ite (>= " + b.S + " " + fmt.Sprint(bits) + ") (ite (< " + a.S + " 0) (- 1) 0) (div " + a.S + " " + pn + "))"
	}
	return "(ite (>= " + b.S + " " + fmt.Sprint(bits) + ") 0 (div " + a.S + " " + pn + "))"
}

func (fv *FnVerifier) execConvert(x *ssa.Convert, st *State) {
	v := fv.value(x.X, st)
	from, to := x.X.Type(), x.Type()
	m := fv.mode
	fb, fs, fint := intInfo(from)
	tb, ts, tint := intInfo(to)
	ffb, ffl := isFloat(from)
	tfb, tfl := isFloat(to)
	switch {
	case fint && tint:
		val := Val{T: to, S: m.convInt(v.S, fb, fs, tb, ts)}
		if v.Const != nil {
			val.Const = v.Const
		}
		fv.setEnv(x, val)
	case fint && tfl:
		// int -> float
		var s string
		if m.BV {
			if fs {
				s = fmt.Sprintf("((_ to_fp %s) RNE %s)", fpDims(tfb), v.S)
			} else {
				s = fmt.Sprintf("((_ to_fp_unsigned %s) RNE %s)", fpDims(tfb), v.S)
			}
		} else {
			s = fmt.Sprintf("((_ to_fp %s) RNE (to_real %s))", fpDims(tfb), v.S)
		}
		fv.setEnv(x, Val{T: to, S: s})
	case ffl && tint:
		// float -> int: truncation toward zero; out of range is implementation-defined (flagged)
		var s string
		if m.BV {
			if ts {
				s = fmt.Sprintf("((_ fp.to_sbv %d) RTZ %s)", tb, v.S)
			} else {
				s = fmt.Sprintf("((_ fp.to_ubv %d) RTZ %s)", tb, v.S)
			}
		} else {
			// real value truncated
			r := "(fp.to_real " + v.S + ")"
			s = fmt.Sprintf("(ite (>= %s 0.0) (to_int %s) (- (to_int (- %s))))", r, r, r)
			lo, hi := "0", pow2(tb).String()
			if ts {
				lo, hi = "(- "+pow2(tb-1).String()+")", pow2(tb-1).String()
			}
			rng := fmt.Sprintf("(and (not (fp.isNaN %s)) (not (fp.isInfinite %s)) (<= %s %s) (< %s %s))", v.S, v.S, lo, s, s, hi)
			if fv.fc.NoPanic {
				fv.oblige("cast", fv.exprText(x.X), fv.reach[fv.curBlock], rng, x.Pos(), "float to integer conversion out of range (implementation-defined result)")
			}
			fv.q.assume("(=> " + fv.reach[fv.curBlock] + " " + rng + ")")
		}
		_ = ffb
		fv.setEnv(x, Val{T: to, S: s})
	case ffl && tfl:
		if ffb == tfb {
			v.T = to
			fv.env[x] = v
		} else {
			fv.setEnv(x, Val{T: to, S: fmt.Sprintf("((_ to_fp %s) RNE %s)", fpDims(tfb), v.S)})
		}
	default:
		// string <-> []byte, pointer conversions
		_, fromSlice := from.Underlying().(*types.Slice)
		_, toSlice := to.Underlying().(*types.Slice)
		fbas, fromBasic := from.Underlying().(*types.Basic)
		tbas, toBasic := to.Underlying().(*types.Basic)
		switch {
		case fromSlice && toBasic && tbas.Kind() == types.String:
			fv.setEnv(x, Val{T: to, S: fv.bytesToString(st, v.S)})
		case fromBasic && fbas.Kind() == types.String && toSlice:
			fv.setEnv(x, Val{T: to, S: fv.stringToBytes(st, v.S)})
		case fromBasic && fbas.Kind() == types.UnsafePointer, toBasic && tbas.Kind() == types.UnsafePointer:
			unsupported("unsafe pointer conversion")
		default:
			unsupported("conversion %s -> %s", from, to)
		}
	}
}

func fpDims(bits int) string {
	if bits == 32 {
		return "8 24"
	}
	return "11 53"
}

func (fv *FnVerifier) execSlice(x *ssa.Slice, st *State) {
	m := fv.mode
	base := fv.value(x.X, st)
	reach := fv.reach[fv.curBlock]
	var lo, hi, mx string
	if x.Low != nil {
		lo = fv.toIdx(fv.value(x.Low, st))
	} else {
		lo = m.idx(0)
	}
	add := func(a, b string) string {
		if m.BV {
			return "(bvadd " + a + " " + b + ")"
		}
		return "(+ " + a + " " + b + ")"
	}
	sub := func(a, b string) string {
		if m.BV {
			return "(bvsub " + a + " " + b + ")"
		}
		return "(- " + a + " " + b + ")"
	}
	what := fv.srcText(x.Pos(), token.NoPos)
	if what == "" {
		what = fv.exprText(x.X) + "[" + sliceBoundText(fv, x.Low) + ":" + sliceBoundText(fv, x.High) + "]"
	}
	switch u := x.X.Type().Underlying().(type) {
	case *types.Slice:
		if x.High != nil {
			hi = fv.toIdx(fv.value(x.High, st))
		} else {
			hi = "(slen " + base.S + ")"
		}
		capT := "(scap " + base.S + ")"
		if x.Max != nil {
			mx = fv.toIdx(fv.value(x.Max, st))
		} else {
			mx = capT
		}
		goal := andN([]string{fv.leIdx(m.idx(0), lo), fv.leIdx(lo, hi), fv.leIdx(hi, mx), fv.leIdx(mx, capT)})
		if fv.fc.NoPanic {
			fv.oblige("bounds", what, reach, goal, x.Pos(), "slice bounds out of range")
		}
		fv.q.assume("(=> " + reach + " " + goal + ")")
		fv.setEnv(x, Val{T: x.Type(), S: fmt.Sprintf("(mk-slice (sbase %s) %s %s %s)", base.S, add("(soff "+base.S+")", lo), sub(hi, lo), sub(mx, lo))})
	case *types.Basic: // string
		if x.High != nil {
			hi = fv.toIdx(fv.value(x.High, st))
		} else {
			hi = "(strlen " + base.S + ")"
		}
		goal := andN([]string{fv.leIdx(m.idx(0), lo), fv.leIdx(lo, hi), fv.leIdx(hi, "(strlen "+base.S+")")})
		if fv.fc.NoPanic {
			fv.oblige("bounds", what, reach, goal, x.Pos(), "string slice bounds out of range")
		}
		fv.q.assume("(=> " + reach + " " + goal + ")")
		fv.setEnv(x, Val{T: x.Type(), S: fv.subString(base.S, lo, hi)})
	case *types.Pointer: // pointer to array
		arr := u.Elem().Underlying().(*types.Array)
		n := m.idx(arr.Len())
		if x.High != nil {
			hi = fv.toIdx(fv.value(x.High, st))
		} else {
			hi = n
		}
		goal := andN([]string{fv.leIdx(m.idx(0), lo), fv.leIdx(lo, hi), fv.leIdx(hi, n)})
		if !(x.Low == nil && x.High == nil) && fv.fc.NoPanic {
			fv.oblige("bounds", what, reach, goal, x.Pos(), "slice bounds out of range")
			fv.q.assume("(=> " + reach + " " + goal + ")")
		}
		if base.Addr != nil {
			unsupported("slicing an array field")
		}
		fv.setEnv(x, Val{T: x.Type(), S: fmt.Sprintf("(mk-slice %s %s %s %s)", base.S, lo, sub(hi, lo), sub(n, lo))})
	default:
		unsupported("slice of %s", x.X.Type())
	}
}

func sliceBoundText(fv *FnVerifier, v ssa.Value) string {
	if v == nil {
		return ""
	}
	return fv.exprText(v)
}

// ---------------------------------------------------------------------------------------------
// interfaces

func (fv *FnVerifier) typeTag(t types.Type) int {
	k := typeKey(t)
	if n, ok := fv.eng.typeTags[k]; ok {
		return n
	}
	n := len(fv.eng.typeTags) + 1
	fv.eng.typeTags[k] = n
	if fv.eng.tagTypes == nil {
		fv.eng.tagTypes = map[int]types.Type{}
	}
	fv.eng.tagTypes[n] = t
	return n
}

func (fv *FnVerifier) makeIface(v Val, t types.Type) string {
	if _, ok := t.Underlying().(*types.Interface); ok {
		return v.S
	}
	tag := fv.typeTag(t)
	var payload string
	switch t.Underlying().(type) {
	case *types.Pointer, *types.Map, *types.Chan, *types.Signature:
		if v.Addr != nil {
			payload = fv.q.fresh("iptr")
			fv.q.declareConst(payload, "Int")
		} else {
			payload = v.S
		}
	default:
		if _, _, ok := intInfo(t); ok && !fv.mode.BV {
			payload = v.S
		} else {
			srt := fv.sortOf(t)
			box := "box." + sanitize(typeKey(t))
			unbox := "unbox." + sanitize(typeKey(t))
			fv.q.declareFun(box, []string{srt}, "Int")
			fv.q.declareFun(unbox, []string{"Int"}, srt)
			payload = "(" + box + " " + v.S + ")"
			fv.q.assume("(= (" + unbox + " " + payload + ") " + v.S + ")")
		}
	}
	return fmt.Sprintf("(mk-iface %d %s)", tag, payload)
}

func (fv *FnVerifier) unboxIface(x string, t types.Type) string {
	switch t.Underlying().(type) {
	case *types.Pointer, *types.Map, *types.Chan, *types.Signature:
		return "(ival " + x + ")"
	}
	if _, _, ok := intInfo(t); ok && !fv.mode.BV {
		return "(ival " + x + ")"
	}
	srt := fv.sortOf(t)
	unbox := "unbox." + sanitize(typeKey(t))
	box := "box." + sanitize(typeKey(t))
	fv.q.declareFun(box, []string{srt}, "Int")
	fv.q.declareFun(unbox, []string{"Int"}, srt)
	return "(" + unbox + " (ival " + x + "))"
}

func (fv *FnVerifier) execTypeAssert(x *ssa.TypeAssert, st *State) {
	v := fv.value(x.X, st)
	reach := fv.reach[fv.curBlock]
	var ok string
	var res Val
	if _, isI := x.AssertedType.Underlying().(*types.Interface); isI {
		// interface-to-interface: succeeds iff dynamic type implements it; open world: uninterpreted on the tag, nil fails
		f := "implements." + sanitize(typeKey(x.AssertedType))
		fv.q.declareFun(f, []string{"Int"}, "Bool")
		// concrete types seen so far: whether they implement the interface is known statically
		if it, ok := x.AssertedType.Underlying().(*types.Interface); ok {
			for tag, ct := range fv.eng.tagTypes {
				key := fmt.Sprintf("impl:%s:%d", f, tag)
				if fv.axiomsDone[key] || ct == nil {
					continue
				}
				if _, isI := ct.Underlying().(*types.Interface); isI {
					continue
				}
				fv.axiomsDone[key] = true
				if types.Implements(ct, it) {
					fv.q.assume(fmt.Sprintf("(%s %d)", f, tag))
				} else {
					fv.q.assume(fmt.Sprintf("(not (%s %d))", f, tag))
				}
			}
		}
		ok = "(and (not (= (itag " + v.S + ") 0)) (" + f + " (itag " + v.S + ")))"
		res = Val{T: x.AssertedType, S: v.S}
	} else {
		tag := fv.typeTag(x.AssertedType)
		ok = fmt.Sprintf("(= (itag %s) %d)", v.S, tag)
		res = Val{T: x.AssertedType, S: fv.unboxIface(v.S, x.AssertedType)}
	}
	if x.CommaOk {
		okn := fv.q.bind(x.Name()+".ok", "Bool", ok)
		zero := fv.zeroOf(x.AssertedType)
		rv := fv.q.bind(x.Name(), fv.sortOf(x.AssertedType), "(ite "+okn+" "+res.S+" "+zero+")")
		fv.q.assume(fv.wf(rv, x.AssertedType, st))
		fv.env[x] = Val{T: x.Type(), Tup: []Val{{T: x.AssertedType, S: rv}, {T: types.Typ[types.Bool], S: okn}}}
		return
	}
	if fv.fc.NoPanic {
		fv.oblige("cast", fv.exprText(x.X), reach, ok, x.Pos(), "type assertion may fail")
	}
	fv.q.assume("(=> " + reach + " " + ok + ")")
	rv := fv.q.bind(x.Name(), fv.sortOf(x.AssertedType), res.S)
	fv.q.assume(fv.wf(rv, x.AssertedType, st))
	fv.env[x] = Val{T: x.AssertedType, S: rv}
}

// ---------------------------------------------------------------------------------------------
// strings

func (fv *FnVerifier) bytesToString(st *State, s string) string {
	m := fv.mode
	k := fv.elemsKey(types.Typ[types.Uint8])
	row := "(select " + fv.heapGet(st, k) + " (sbase " + s + "))"
	bsort := "Int"
	if m.BV {
		bsort = "(_ BitVec 8)"
	}
	fv.q.declareFun("str.of", []string{"(Array " + m.idxSort() + " " + bsort + ")", m.idxSort(), m.idxSort()}, "Str")
	app := "(str.of " + row + " (soff " + s + ") (slen " + s + "))"
	if n, ok := fv.strApps[app]; ok {
		return n
	}
	n := fv.q.bind("str", "Str", app)
	fv.strApps[app] = n
	zero := m.litI(0, 8)
	if m.BV {
		fv.q.assume(fmt.Sprintf("(= (strlen %s) (slen %s))", n, s))
		fv.q.assume(fmt.Sprintf("(forall ((j (_ BitVec 64))) (! (= (select (sarr %s) j) (ite (bvult j (slen %s)) (select %s (bvadd (soff %s) j)) %s)) :pattern ((select (sarr %s) j))))", n, s, row, s, zero, n))
	} else {
		fv.q.assume(fmt.Sprintf("(= (strlen %s) (slen %s))", n, s))
		fv.q.assume(fmt.Sprintf("(forall ((j Int)) (! (= (select (sarr %s) j) (ite (and (<= 0 j) (< j (slen %s))) (select %s (+ (soff %s) j)) %s)) :pattern ((select (sarr %s) j))))", n, s, row, s, zero, n))
	}
	return n
}

func (fv *FnVerifier) stringToBytes(st *State, s string) string {
	m := fv.mode
	r := fv.allocRef(st)
	k := fv.elemsKey(types.Typ[types.Uint8])
	fv.heapSet(st, k, "(store "+fv.heapGet(st, k)+" "+r+" (sarr "+s+"))")
	// round trip string([]byte(s)) == s (Str values are normalised: zero outside [0,len))
	{
		bsort := "Int"
		if m.BV {
			bsort = "(_ BitVec 8)"
		}
		fv.q.declareFun("str.of", []string{"(Array " + m.idxSort() + " " + bsort + ")", m.idxSort(), m.idxSort()}, "Str")
		fv.q.assume("(= (str.of (sarr " + s + ") " + m.idx(0) + " (strlen " + s + ")) " + s + ")")
	}
	return fmt.Sprintf("(mk-slice (ite (= (strlen %s) %s) %s %s) %s (strlen %s) (strlen %s))", s, m.idx(0), r, r, m.idx(0), s, s)
}

func (fv *FnVerifier) strConcat(a, b string) string {
	m := fv.mode
	fv.q.declareFun("str.cat", []string{"Str", "Str"}, "Str")
	app := "(str.cat " + a + " " + b + ")"
	if n, ok := fv.strApps[app]; ok {
		return n
	}
	n := fv.q.bind("cat", "Str", app)
	fv.strApps[app] = n
	zero := m.litI(0, 8)
	if m.BV {
		fv.q.assume(fmt.Sprintf("(= (strlen %s) (bvadd (strlen %s) (strlen %s)))", n, a, b))
		fv.q.assume(fmt.Sprintf("(forall ((j (_ BitVec 64))) (! (= (select (sarr %s) j) (ite (bvult j (strlen %s)) (select (sarr %s) j) (ite (bvult j (strlen %s)) (select (sarr %s) (bvsub j (strlen %s))) %s))) :pattern ((select (sarr %s) j))))", n, a, a, n, b, a, zero, n))
	} else {
		fv.q.assume(fmt.Sprintf("(= (strlen %s) (+ (strlen %s) (strlen %s)))", n, a, b))
		fv.q.assume(fmt.Sprintf("(forall ((j Int)) (! (= (select (sarr %s) j) (ite (and (<= 0 j) (< j (strlen %s))) (select (sarr %s) j) (ite (and (<= 0 j) (< j (strlen %s))) (select (sarr %s) (- j (strlen %s))) %s))) :pattern ((select (sarr %s) j))))", n, a, a, n, b, a, zero, n))
	}
	return n
}

func (fv *FnVerifier) subString(s, lo, hi string) string {
	m := fv.mode
	fv.q.declareFun("str.sub", []string{"Str", m.idxSort(), m.idxSort()}, "Str")
	app := "(str.sub " + s + " " + lo + " " + hi + ")"
	if n, ok := fv.strApps[app]; ok {
		return n
	}
	n := fv.q.bind("sub", "Str", app)
	fv.strApps[app] = n
	zero := m.litI(0, 8)
	if m.BV {
		fv.q.assume(fmt.Sprintf("(= (strlen %s) (bvsub %s %s))", n, hi, lo))
		fv.q.assume(fmt.Sprintf("(forall ((j (_ BitVec 64))) (! (= (select (sarr %s) j) (ite (bvult j (strlen %s)) (select (sarr %s) (bvadd j %s)) %s)) :pattern ((select (sarr %s) j))))", n, n, s, lo, zero, n))
	} else {
		fv.q.assume(fmt.Sprintf("(= (strlen %s) (- %s %s))", n, hi, lo))
		fv.q.assume(fmt.Sprintf("(forall ((j Int)) (! (= (select (sarr %s) j) (ite (and (<= 0 j) (< j (strlen %s))) (select (sarr %s) (+ j %s)) %s)) :pattern ((select (sarr %s) j))))", n, n, s, lo, zero, n))
	}
	return n
}
