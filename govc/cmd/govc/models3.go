package main

// container/list: modelled at the level of its real representation (doubly linked ring through a sentinel). The sentinel
// of list l is identified with l itself (root is List's first field). Heap arrays:
//   list.next, list.prev, list.owner : Element/sentinel ref -> ref        list.len : List ref -> int
//   Element.Value                    : the ordinary field array of container/list.Element
// Each operation performs exactly the pointer updates of the library (point stores, quantifier-free); afterwards the
// library's representation invariant wfList(l) is assumed again (trusted: container/list maintains it).

import (
	"fmt"
	"go/token"
	"go/types"

	"golang.org/x/tools/go/ssa"
)

func (fv *FnVerifier) listKeys() {
	fv.arrSort["list.next"] = "(Array Int Int)"
	fv.arrSort["list.prev"] = "(Array Int Int)"
	fv.arrSort["list.owner"] = "(Array Int Int)"
	fv.arrSort["list.len"] = "(Array Int " + fv.mode.idxSort() + ")"
}

func (fv *FnVerifier) lget(st *State, key, ref string) string {
	fv.listKeys()
	return "(select " + fv.heapGet(st, key) + " " + ref + ")"
}

func (fv *FnVerifier) lset(st *State, key, ref, val string) {
	fv.listKeys()
	fv.heapSet(st, key, "(store "+fv.heapGet(st, key)+" "+ref+" "+val+")")
}

// wfListTerm: representation invariant of list l in state st.
func (fv *FnVerifier) wfListTerm(st *State, l string) string {
	fv.listKeys()
	nx, pv, ow, ln := fv.heapGet(st, "list.next"), fv.heapGet(st, "list.prev"), fv.heapGet(st, "list.owner"), fv.heapGet(st, "list.len")
	e := fv.q.fresh("we")
	zero := fv.mode.idx(0)
	body := fmt.Sprintf("(=> (= (select %s %s) %s) (and (not (= %s 0)) (not (= %s %s)) (not (= (select "+nx+" "+e+") "+e+")) (not (= (select "+pv+" "+e+") "+e+")) (not (= (select "+ln+" "+l+") "+zero+")) (=> (= (select "+ln+" "+l+") "+fv.mode.idx(1)+") (= "+e+" (select "+nx+" "+l+"))) (= (select %s (select %s %s)) %s) (= (select %s (select %s %s)) %s) (or (= (select %s %s) %s) (= (select %s (select %s %s)) %s)) (or (= (select %s %s) %s) (= (select %s (select %s %s)) %s))))",
		ow, e, l, e, e, l,
		pv, nx, e, e,
		nx, pv, e, e,
		nx, e, l, ow, nx, e, l,
		pv, e, l, ow, pv, e, l)
	one := fv.mode.idx(1)
	// links are ordinary object references (never element references): non-negative
	nonneg := fmt.Sprintf("(and (<= 0 (select %s %s)) (<= 0 (select %s %s)) (forall ((%s Int)) (! (=> (= (select %s %s) %s) (and (<= 0 (select %s %s)) (<= 0 (select %s %s)))) :pattern ((select %s %s)) :pattern ((select %s %s)))))",
		nx, l, pv, l, e, ow, e, l, nx, e, pv, e, nx, e, pv, e)
	single := nonneg + " " + fmt.Sprintf("(= (= (select %s %s) %s) (and (not (= (select %s %s) %s)) (= (select %s %s) (select %s %s))))", ln, l, one, nx, l, l, nx, l, pv, l)
	return "(and " + single + " " + fmt.Sprintf("(and (= (select %s (select %s %s)) %s) (= (select %s (select %s %s)) %s) %s (= (= (select %s %s) %s) (= (select %s %s) %s)) (= (= (select %s %s) %s) (= (select %s %s) %s)) (or (= (select %s %s) %s) (= (select %s (select %s %s)) %s)) (or (= (select %s %s) %s) (= (select %s (select %s %s)) %s)) (not (= (select %s %s) %s)) (forall ((%s Int)) (! %s :pattern ((select %s %s)) :pattern ((select %s %s)))))",
		pv, nx, l, l,
		nx, pv, l, l,
		fv.mode.cmp(">=", "(select "+ln+" "+l+")", zero, true),
		ln, l, zero, nx, l, l,
		ln, l, zero, pv, l, l,
		nx, l, l, ow, nx, l, l,
		pv, l, l, ow, pv, l, l,
		ow, l, l,
		e, body, nx, e, pv, e) + ")"
}

func (fv *FnVerifier) listNonNil(l Val, what string, pos token.Pos) {
	reach := fv.reach[fv.curBlock]
	if fv.fc.NoPanic {
		fv.oblige("nil", "list:"+what, reach, "(not (= "+l.S+" 0))", pos, "nil *list.List / *list.Element")
	}
	fv.q.assume("(=> " + reach + " (not (= " + l.S + " 0)))")
}

func listWrites(fv *FnVerifier) []string {
	fv.listKeys()
	return []string{"list.next", "list.prev", "list.owner", "list.len"}
}

func (fv *FnVerifier) elementValueKey(elemPtrT types.Type) string {
	et := elemPtrT.Underlying().(*types.Pointer).Elem()
	st := et.Underlying().(*types.Struct)
	for i := 0; i < st.NumFields(); i++ {
		if st.Field(i).Name() == "Value" {
			return fv.fieldKey(et, st, i)
		}
	}
	unsupported("list.Element without Value field")
	return ""
}

// insert e after at (both in list l)
func (fv *FnVerifier) listInsert(st *State, l, e, at string) {
	n := fv.q.bind("lnext", "Int", fv.lget(st, "list.next", at))
	fv.lset(st, "list.prev", e, at)
	fv.lset(st, "list.next", e, n)
	fv.lset(st, "list.next", at, e)
	fv.lset(st, "list.prev", n, e)
	fv.lset(st, "list.owner", e, l)
	one := fv.mode.idx(1)
	fv.lset(st, "list.len", l, idxAdd(fv.mode, fv.lget(st, "list.len", l), one))
}

func (fv *FnVerifier) listUnlink(st *State, l, e string) {
	p := fv.q.bind("lprev", "Int", fv.lget(st, "list.prev", e))
	n := fv.q.bind("lnext", "Int", fv.lget(st, "list.next", e))
	fv.lset(st, "list.next", p, n)
	fv.lset(st, "list.prev", n, p)
}

func (fv *FnVerifier) reassumeWF(st *State, l string) {
	fv.q.assume(fv.wfListTerm(st, l))
	fv.note("model: container/list operations are its real pointer updates; its representation invariant is assumed after each operation")
}

func init() {
	pending = append(pending, func() {
		add := func(name string, m model) { models[name] = m }
		elemT := func(c *ssa.CallCommon) types.Type { return c.Signature().Results().At(0).Type() }
		add("container/list.New", model{apply: func(fv *FnVerifier, c *ssa.CallCommon, args []Val, st *State, pos token.Pos, name string) Val {
			l := fv.allocRef(st)
			fv.lset(st, "list.next", l, l)
			fv.lset(st, "list.prev", l, l)
			fv.lset(st, "list.owner", l, "0")
			fv.lset(st, "list.len", l, fv.mode.idx(0))
			fv.reassumeWF(st, l)
			return Val{T: elemT(c), S: l}
		}, writes: listWrites})
		add("(*container/list.List).Len", model{apply: func(fv *FnVerifier, c *ssa.CallCommon, args []Val, st *State, pos token.Pos, name string) Val {
			fv.listNonNil(args[0], fv.exprText(c.Args[0]), pos)
			return Val{T: types.Typ[types.Int], S: fv.q.bind(name, fv.mode.idxSort(), fv.lget(st, "list.len", args[0].S))}
		}, writes: noWrites})
		frontBack := func(key string) model {
			return model{apply: func(fv *FnVerifier, c *ssa.CallCommon, args []Val, st *State, pos token.Pos, name string) Val {
				fv.listNonNil(args[0], fv.exprText(c.Args[0]), pos)
				l := args[0].S
				x := fv.lget(st, key, l)
				r := fv.q.bind(name, "Int", "(ite (= "+x+" "+l+") 0 "+x+")")
				fv.q.assume("(and (<= 0 " + r + ") (< " + r + " " + st.alloc + "))")
				return Val{T: elemT(c), S: r}
			}, writes: noWrites}
		}
		add("(*container/list.List).Front", frontBack("list.next"))
		add("(*container/list.List).Back", frontBack("list.prev"))
		nextPrev := func(key string) model {
			return model{apply: func(fv *FnVerifier, c *ssa.CallCommon, args []Val, st *State, pos token.Pos, name string) Val {
				fv.listNonNil(args[0], fv.exprText(c.Args[0]), pos)
				e := args[0].S
				ow := fv.lget(st, "list.owner", e)
				x := fv.lget(st, key, e)
				r := fv.q.bind(name, "Int", "(ite (or (= "+ow+" 0) (= "+x+" "+ow+")) 0 "+x+")")
				fv.q.assume("(and (<= 0 " + r + ") (< " + r + " " + st.alloc + "))")
				return Val{T: elemT(c), S: r}
			}, writes: noWrites}
		}
		add("(*container/list.Element).Next", nextPrev("list.next"))
		add("(*container/list.Element).Prev", nextPrev("list.prev"))
		push := func(back bool) model {
			return model{apply: func(fv *FnVerifier, c *ssa.CallCommon, args []Val, st *State, pos token.Pos, name string) Val {
				fv.listNonNil(args[0], fv.exprText(c.Args[0]), pos)
				l := args[0].S
				for _, k := range listWrites(fv) {
					fv.frameCheckKey(st, k, l, pos, "list:"+fv.exprText(c.Args[0]))
				}
				e := fv.allocRef(st)
				vk := fv.elementValueKey(elemT(c))
				fv.heapSet(st, vk, "(store "+fv.heapGet(st, vk)+" "+e+" "+fv.scalar(args[1], c.Args[1].Type())+")")
				at := l
				if back {
					at = fv.q.bind("lback", "Int", fv.lget(st, "list.prev", l))
				}
				fv.listInsert(st, l, e, at)
				fv.reassumeWF(st, l)
				return Val{T: elemT(c), S: e}
			}, writes: func(fv *FnVerifier) []string { return append(listWrites(fv), "*listvalue") }}
		}
		add("(*container/list.List).PushBack", push(true))
		add("(*container/list.List).PushFront", push(false))
		insertRel := func(before bool) model {
			return model{apply: func(fv *FnVerifier, c *ssa.CallCommon, args []Val, st *State, pos token.Pos, name string) Val {
				fv.listNonNil(args[0], fv.exprText(c.Args[0]), pos)
				l, mark := args[0].S, args[2].S
				for _, k := range listWrites(fv) {
					fv.frameCheckKey(st, k, l, pos, "list:"+fv.exprText(c.Args[0]))
				}
				// library: if mark.list != l return nil (no change)
				own := fv.q.bind("lown", "Bool", "(= "+fv.lget(st, "list.owner", mark)+" "+l+")")
				pre := st.clone()
				e := fv.allocRef(st)
				vk := fv.elementValueKey(elemT(c))
				fv.heapSet(st, vk, "(store "+fv.heapGet(st, vk)+" "+e+" "+fv.scalar(args[1], c.Args[1].Type())+")")
				at := mark
				if before {
					at = fv.q.bind("lat", "Int", fv.lget(st, "list.prev", mark))
				}
				fv.listInsert(st, l, e, at)
				// merge with the unchanged state when mark is foreign
				for _, k := range listWrites(fv) {
					fv.heapSet(st, k, "(ite "+own+" "+fv.heapGet(st, k)+" "+fv.heapGet(pre, k)+")")
				}
				fv.reassumeWF(st, l)
				r := fv.q.bind(name, "Int", "(ite "+own+" "+e+" 0)")
				return Val{T: elemT(c), S: r}
			}, writes: func(fv *FnVerifier) []string { return append(listWrites(fv), "*listvalue") }}
		}
		add("(*container/list.List).InsertBefore", insertRel(true))
		add("(*container/list.List).InsertAfter", insertRel(false))
		add("(*container/list.List).Remove", model{apply: func(fv *FnVerifier, c *ssa.CallCommon, args []Val, st *State, pos token.Pos, name string) Val {
			fv.listNonNil(args[0], fv.exprText(c.Args[0]), pos)
			fv.listNonNil(args[1], fv.exprText(c.Args[1]), pos)
			l, e := args[0].S, args[1].S
			for _, k := range listWrites(fv) {
				fv.frameCheckKey(st, k, l, pos, "list:"+fv.exprText(c.Args[0]))
			}
			own := fv.q.bind("lown", "Bool", "(= "+fv.lget(st, "list.owner", e)+" "+l+")")
			pre := st.clone()
			fv.listUnlink(st, l, e)
			fv.lset(st, "list.next", e, "0")
			fv.lset(st, "list.prev", e, "0")
			fv.lset(st, "list.owner", e, "0")
			one := fv.mode.idx(1)
			if fv.mode.BV {
				fv.lset(st, "list.len", l, "(bvsub "+fv.lget(st, "list.len", l)+" "+one+")")
			} else {
				fv.lset(st, "list.len", l, "(- "+fv.lget(st, "list.len", l)+" 1)")
			}
			for _, k := range listWrites(fv) {
				fv.heapSet(st, k, "(ite "+own+" "+fv.heapGet(st, k)+" "+fv.heapGet(pre, k)+")")
			}
			fv.reassumeWF(st, l)
			// returns e.Value
			vk := fv.elementValueKey(c.Args[1].Type())
			v := fv.q.bind(name, "Iface", "(select "+fv.heapGet(st, vk)+" "+e+")")
			return Val{T: c.Signature().Results().At(0).Type(), S: v}
		}, writes: listWrites})
		move := func(front bool) model {
			return model{apply: func(fv *FnVerifier, c *ssa.CallCommon, args []Val, st *State, pos token.Pos, name string) Val {
				fv.listNonNil(args[0], fv.exprText(c.Args[0]), pos)
				fv.listNonNil(args[1], fv.exprText(c.Args[1]), pos)
				l, e := args[0].S, args[1].S
				for _, k := range listWrites(fv) {
					fv.frameCheckKey(st, k, l, pos, "list:"+fv.exprText(c.Args[0]))
				}
				// library: no-op when e.list != l or e is already at the target position
				var already string
				if front {
					already = "(= " + fv.lget(st, "list.next", l) + " " + e + ")"
				} else {
					already = "(= " + fv.lget(st, "list.prev", l) + " " + e + ")"
				}
				doit := fv.q.bind("lmove", "Bool", "(and (= "+fv.lget(st, "list.owner", e)+" "+l+") (not "+already+"))")
				pre := st.clone()
				fv.listUnlink(st, l, e)
				at := l
				if !front {
					at = fv.q.bind("lback", "Int", fv.lget(st, "list.prev", l))
				}
				n := fv.q.bind("lnext", "Int", fv.lget(st, "list.next", at))
				fv.lset(st, "list.prev", e, at)
				fv.lset(st, "list.next", e, n)
				fv.lset(st, "list.next", at, e)
				fv.lset(st, "list.prev", n, e)
				for _, k := range []string{"list.next", "list.prev"} {
					fv.heapSet(st, k, "(ite "+doit+" "+fv.heapGet(st, k)+" "+fv.heapGet(pre, k)+")")
				}
				fv.reassumeWF(st, l)
				return Val{}
			}, writes: listWrites}
		}
		add("(*container/list.List).MoveToFront", move(true))
		add("(*container/list.List).MoveToBack", move(false))
		add("(*container/list.List).Init", model{apply: func(fv *FnVerifier, c *ssa.CallCommon, args []Val, st *State, pos token.Pos, name string) Val {
			fv.listNonNil(args[0], fv.exprText(c.Args[0]), pos)
			l := args[0].S
			for _, k := range listWrites(fv) {
				fv.frameCheckKey(st, k, l, pos, "list:"+fv.exprText(c.Args[0]))
			}
			// elements of the old list keep their (stale) owner in the library too (lazy); here they are detached conservatively
			// ghost reading of ownership: exactly l's elements are detached, every other list keeps its elements
			// (the library leaves stale e.list pointers in the old elements; using such an element afterwards is not modelled)
			{
				ow := fv.heapGet(st, "list.owner")
				ow2 := fv.heapHavoc(st, "list.owner")
				e := fv.q.fresh("ie")
				fv.q.assume(fmt.Sprintf("(forall ((%s Int)) (! (= (select %s %s) (ite (= (select %s %s) %s) 0 (select %s %s))) :pattern ((select %s %s))))", e, ow2, e, ow, e, l, ow, e, ow2, e))
				fv.note("model: List.Init detaches exactly the list's elements (stale element pointers of the old contents are not modelled)")
			}
			fv.lset(st, "list.next", l, l)
			fv.lset(st, "list.prev", l, l)
			fv.lset(st, "list.owner", l, "0")
			fv.lset(st, "list.len", l, fv.mode.idx(0))
			fv.reassumeWF(st, l)
			return Val{T: c.Args[0].Type(), S: l}
		}, writes: listWrites})
	})
}
