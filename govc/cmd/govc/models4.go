package main

// fmt.Sprintf with a constant format (deterministic function of the argument values; digit facts for %0Nx / %d) and
// big.Int.SetBytes.

import (
	"fmt"
	"go/constant"
	"go/token"
	"go/types"
	"math/big"
	"regexp"
	"strconv"
	"strings"

	"golang.org/x/tools/go/ssa"
)

// varargOperands returns the SSA values boxed into a `...interface{}` argument built by the compiler
// (new [n]interface{}; stores at constant indexes; slice), or nil,false when the shape is different.
func varargOperands(v ssa.Value) ([]ssa.Value, bool) {
	if c, ok := v.(*ssa.Const); ok && c.Value == nil {
		return nil, true
	}
	sl, ok := v.(*ssa.Slice)
	if !ok {
		return nil, false
	}
	al, ok := sl.X.(*ssa.Alloc)
	if !ok {
		return nil, false
	}
	arr, ok := al.Type().(*types.Pointer).Elem().Underlying().(*types.Array)
	if !ok {
		return nil, false
	}
	out := make([]ssa.Value, arr.Len())
	for _, r := range *al.Referrers() {
		ia, ok := r.(*ssa.IndexAddr)
		if !ok {
			continue
		}
		ic, ok := ia.Index.(*ssa.Const)
		if !ok {
			return nil, false
		}
		idx, _ := constant.Int64Val(ic.Value)
		for _, rr := range *ia.Referrers() {
			if st, ok := rr.(*ssa.Store); ok && st.Addr == ssa.Value(ia) {
				val := st.Val
				if mi, ok := val.(*ssa.MakeInterface); ok {
					val = mi.X
				}
				out[idx] = val
			}
		}
	}
	for _, o := range out {
		if o == nil {
			return nil, false
		}
	}
	return out, true
}

var reHexFmt = regexp.MustCompile(`^%0(\d+)x$`)

func init() {
	pending = append(pending, func() {
		delete(dropCalls, "fmt.Sprintf")
		models["fmt.Sprintf"] = model{apply: func(fv *FnVerifier, c *ssa.CallCommon, args []Val, st *State, pos token.Pos, name string) Val {
			strT := types.Typ[types.String]
			fresh := func() Val { return fv.freshVal(name, strT, st) }
			fc, ok := c.Args[0].(*ssa.Const)
			if !ok || fc.Value == nil {
				return fresh()
			}
			format := constant.StringVal(fc.Value)
			ops, ok := varargOperands(c.Args[1])
			if !ok {
				return fresh()
			}
			var sorts, terms []string
			var ints []string // mathematical values of integer-like operands
			for _, o := range ops {
				v := fv.value(o, st)
				t := o.Type()
				switch {
				case isBigPtr(t):
					sorts = append(sorts, "Int")
					bv := fv.q.bind(name+".big", "Int", fv.loadBig(st, v.S))
					terms = append(terms, bv)
					ints = append(ints, bv)
				default:
					if b, s, isInt := intInfo(t); isInt {
						x := v.S
						if fv.mode.BV {
							return fresh()
						}
						_ = b
						_ = s
						sorts = append(sorts, "Int")
						terms = append(terms, x)
						ints = append(ints, x)
					} else if bt, isB := t.Underlying().(*types.Basic); isB && bt.Info()&types.IsString != 0 {
						sorts = append(sorts, "Str")
						terms = append(terms, v.S)
						ints = append(ints, "")
					} else if sl, isS := t.Underlying().(*types.Slice); isS && isByte(sl.Elem()) {
						sorts = append(sorts, "Str")
						terms = append(terms, fv.bytesToString(st, fv.scalar(v, t)))
						ints = append(ints, "")
					} else {
						return fresh() // operand kind not modelled: result unconstrained
					}
				}
			}
			fn := "fmt.sprintf." + sanitize(strconv.Quote(format))
			fv.q.declareFun(fn, sorts, "Str")
			app := fn
			if len(terms) > 0 {
				app = "(" + fn + " " + strings.Join(terms, " ") + ")"
			}
			r := fv.q.bind(name, "Str", app)
			fv.q.assume(fv.wf(r, strT, st))
			fv.note("model: fmt.Sprintf(" + strconv.Quote(format) + ", ...) is a deterministic function of its operand values")
			if m := reHexFmt.FindStringSubmatch(format); m != nil && len(ints) == 1 && ints[0] != "" && !fv.mode.BV {
				n, _ := strconv.Atoi(m[1])
				lim := new(big.Int).Exp(big.NewInt(16), big.NewInt(int64(n)), nil).String()
				v := ints[0]
				j := fv.q.fresh("j")
				fv.q.assume(fmt.Sprintf("(=> (and (<= 0 %s) (< %s %s)) (= (strlen %s) %d))", v, v, lim, r, n))
				fv.q.assume(fmt.Sprintf("(=> (>= %s %s) (> (strlen %s) %d))", v, lim, r, n))
				fv.q.assume(fmt.Sprintf("(=> (<= 0 %s) (forall ((%s Int)) (! (=> (and (<= 0 %s) (< %s (strlen %s))) (or (and (<= 48 (select (sarr %s) %s)) (<= (select (sarr %s) %s) 57)) (and (<= 97 (select (sarr %s) %s)) (<= (select (sarr %s) %s) 102)))) :pattern ((select (sarr %s) %s)))))",
					v, j, j, j, r, r, j, r, j, r, j, r, j, r, j))
				fv.note("axiom: Sprintf(\"%0Nx\", v) for v >= 0 has exactly N lowercase hex digits iff v < 16^N, more otherwise")
			}
			if format == "%d" && len(ints) == 1 && ints[0] != "" {
				inv := "fmt.unsprintf.d"
				fv.q.declareFun(inv, []string{"Str"}, "Int")
				fv.q.assume("(= (" + inv + " " + r + ") " + ints[0] + ")")
				fv.note("axiom: Sprintf(\"%d\", v) is injective in v")
			}
			return Val{T: strT, S: r}
		}, writes: noWrites}

		bigString := model{apply: func(fv *FnVerifier, c *ssa.CallCommon, args []Val, st *State, pos token.Pos, name string) Val {
			// read-only; decimal text is an injective function of the value (nil receiver prints "<nil>", no panic)
			fv.q.declareFun("big.str", []string{"Int"}, "Str")
			fv.q.declareFun("big.unstr", []string{"Str"}, "Int")
			v := fv.loadBig(st, args[0].S)
			r := fv.q.bind(name, "Str", "(big.str "+v+")")
			fv.q.assume("(= (big.unstr " + r + ") " + v + ")")
			fv.q.assume(fv.wf(r, types.Typ[types.String], st))
			fv.note("model: big.Int.String() is an injective function of the value; no heap effect")
			return Val{T: types.Typ[types.String], S: r}
		}, writes: noWrites}
		models["(*math/big.Int).String"] = bigString
		models["(*math/big.Int).SetBytes"] = model{apply: func(fv *FnVerifier, c *ssa.CallCommon, args []Val, st *State, pos token.Pos, name string) Val {
			fv.bigNonNil(args[0], "z", pos)
			fv.frameCheckKey(st, "big", args[0].S, pos, "big:"+fv.exprText(c.Args[0]))
			s := fv.bytesToString(st, fv.scalar(args[1], c.Args[1].Type()))
			fv.q.declareFun("bytes.be", []string{"Str"}, "Int")
			v := fv.q.bind(name+".be", "Int", "(bytes.be "+s+")")
			fv.q.assume("(>= " + v + " 0)")
			fv.q.assume("(=> (= (strlen " + s + ") " + fv.mode.idx(0) + ") (= " + v + " 0))")
			for k := 1; k <= 8; k++ {
				lim := new(big.Int).Exp(big.NewInt(256), big.NewInt(int64(k)), nil).String()
				fv.q.assume("(=> " + fv.mode.cmp("<=", "(strlen "+s+")", fv.mode.idx(int64(k)), true) + " (< " + v + " " + lim + "))")
			}
			fv.storeBig(st, args[0].S, v)
			fv.note("model: big.Int.SetBytes(b) is the big-endian value of b: a function of the content, >= 0, < 256^len(b)")
			return Val{T: args[0].T, S: args[0].S}
		}, writes: bigWrites}
	})
}

func isBigPtr(t types.Type) bool {
	p, ok := t.Underlying().(*types.Pointer)
	return ok && isBigInt(p.Elem())
}

func isByte(t types.Type) bool {
	b, ok := t.Underlying().(*types.Basic)
	return ok && b.Kind() == types.Uint8
}
