package main

// Evaluation of contract expressions to SMT terms in a symbolic state.
// Integer arithmetic in contracts: mode int = mathematical (unbounded) integers; mode bv = machine arithmetic.

import (
	"fmt"
	"go/constant"
	"go/types"
	"math/big"
	"strings"
)

type CEnv struct {
	fv    *FnVerifier
	names map[string]Val
	st    *State
	old   *State
	pkg   *types.Package
	bound map[string]Val
	self  *Val
	pkgPath string
	qdepth  int // number of enclosing quantifiers (terms may contain bound variables)
}

type clausePart struct {
	label string
	term  string
}

func (fv *FnVerifier) newCEnv(names map[string]Val, st, old *State) *CEnv {
	var pkg *types.Package
	if fv.fn != nil && fv.fn.Pkg != nil {
		pkg = fv.fn.Pkg.Pkg
	}
	pp := ""
	if fv.fc != nil {
		pp = fv.fc.PkgPath
	}
	return &CEnv{fv: fv, names: names, st: st, old: old, pkg: pkg, bound: map[string]Val{}, pkgPath: pp}
}

func (ce *CEnv) with(names map[string]Val) *CEnv {
	n := *ce
	n.names = names
	return &n
}

type cevalErr struct{ msg string }

func cfail(f string, a ...interface{}) { panic(cevalErr{fmt.Sprintf(f, a...)}) }

var untypedInt = types.Typ[types.UntypedInt]

func (ce *CEnv) evalClause(c Clause) (parts []clausePart) {
	defer func() {
		if r := recover(); r != nil {
			if e, ok := r.(cevalErr); ok {
				panic(unsupportedErr{"contract clause `" + c.Src + "`: " + e.msg})
			}
			panic(r)
		}
	}()
	// inv(x) expands to one part per struct invariant
	if call, ok := c.E.(*ECall); ok {
		if id, ok := call.Fn.(*EIdent); ok && id.Name == "inv" && len(call.Args) == 1 {
			x := ce.eval(call.Args[0])
			ss := ce.structSpecOf(x.T)
			if ss == nil {
				cfail("no struct spec for %s", x.T)
			}
			for i, ic := range ss.Invariants {
				l := ic.Label
				if l == "" {
					l = fmt.Sprintf("i%d", i+1)
				}
				pre := c.Label
				if pre == "" {
					pre = "inv"
				}
				parts = append(parts, clausePart{pre + "." + l, ce.evalInv(ic, x)})
			}
			return parts
		}
	}
	label := c.Label
	if label == "" {
		label = shortLabel(c.Src)
	}
	v := ce.eval(c.E)
	return []clausePart{{label, ce.boolTerm(v)}}
}

func shortLabel(src string) string {
	s := strings.Join(strings.Fields(src), "")
	if len(s) > 40 {
		s = s[:40]
	}
	return s
}

func (ce *CEnv) mustEval(e Expr) (v Val) {
	defer func() {
		if r := recover(); r != nil {
			if e2, ok := r.(cevalErr); ok {
				panic(unsupportedErr{"contract expression `" + exprString(e) + "`: " + e2.msg})
			}
			panic(r)
		}
	}()
	return ce.eval(e)
}

func (ce *CEnv) boolTerm(v Val) string {
	if v.T == nil || !isBoolType(v.T) {
		cfail("boolean expected, got %v", v.T)
	}
	return v.S
}

func isBoolType(t types.Type) bool {
	b, ok := t.Underlying().(*types.Basic)
	return ok && b.Info()&types.IsBoolean != 0
}

func boolVal(s string) Val { return Val{T: types.Typ[types.Bool], S: s} }

func (ce *CEnv) structSpecOf(t types.Type) *StructSpec {
	if p, ok := t.Underlying().(*types.Pointer); ok {
		t = p.Elem()
	}
	if p, ok := t.(*types.Pointer); ok {
		t = p.Elem()
	}
	n, ok := t.(*types.Named)
	if !ok || n.Obj().Pkg() == nil {
		return nil
	}
	return ce.fv.eng.cs.Structs[n.Obj().Pkg().Path()+"#"+n.Obj().Name()]
}

func (ce *CEnv) evalInv(ic Clause, x Val) string {
	sub := *ce
	sub.self = &x
	sub.bound = map[string]Val{}
	if n, ok := derefNamed(x.T); ok && n.Obj().Pkg() != nil {
		sub.pkg = n.Obj().Pkg()
		sub.pkgPath = n.Obj().Pkg().Path()
	}
	return sub.boolTerm(sub.eval(ic.E))
}

func derefNamed(t types.Type) (*types.Named, bool) {
	if p, ok := t.Underlying().(*types.Pointer); ok {
		t = p.Elem()
	}
	if p, ok := t.(*types.Pointer); ok {
		t = p.Elem()
	}
	n, ok := t.(*types.Named)
	return n, ok
}

// coerce renders an (possibly untyped-constant) value at Go type t.
func (ce *CEnv) coerce(v Val, t types.Type) Val {
	if v.IsNil {
		return Val{T: t, S: ce.fv.zeroOf(t)}
	}
	if v.Const != nil && (v.T == nil || v.T == untypedInt) {
		if b, _, ok := intInfo(t); ok {
			return Val{T: t, S: ce.fv.mode.lit(v.Const, b), Const: v.Const}
		}
		if fb, ok := isFloat(t); ok {
			f, _ := new(big.Float).SetInt(v.Const).Float64()
			return Val{T: t, S: fpLit(f, fb)}
		}
		cfail("cannot use integer constant as %s", t)
	}
	return v
}

func (ce *CEnv) intLit(n *big.Int) Val { return Val{T: untypedInt, Const: n, S: ce.fv.mode.lit(n, 64)} }

// unify brings two operands to a common integer representation; returns bits/signed.
func (ce *CEnv) unify(a, b Val) (Val, Val, int, bool) {
	aU := a.T == untypedInt
	bU := b.T == untypedInt
	switch {
	case aU && bU:
		return ce.coerce(a, types.Typ[types.Int]), ce.coerce(b, types.Typ[types.Int]), 64, true
	case aU:
		a = ce.coerce(a, b.T)
	case bU:
		b = ce.coerce(b, a.T)
	}
	ab, as, ok1 := intInfo(a.T)
	bb, bs, ok2 := intInfo(b.T)
	if !ok1 || !ok2 {
		cfail("integer operands expected (%v, %v)", a.T, b.T)
	}
	if ce.fv.mode.BV && ab != bb {
		// extend the narrower
		if ab < bb {
			a = Val{T: b.T, S: ce.fv.mode.convInt(a.S, ab, as, bb, bs)}
			ab, as = bb, bs
		} else {
			b = Val{T: a.T, S: ce.fv.mode.convInt(b.S, bb, bs, ab, as)}
		}
	}
	if ab < bb {
		return a, b, bb, bs
	}
	return a, b, ab, as
}

func (ce *CEnv) eval(e Expr) Val {
	fv := ce.fv
	m := fv.mode
	switch x := e.(type) {
	case *EInt:
		n, ok := new(big.Int).SetString(x.Val, 10)
		if !ok {
			cfail("bad integer %s", x.Val)
		}
		return ce.intLit(n)
	case *EFloat:
		var f float64
		fmt.Sscanf(x.Val, "%g", &f)
		return Val{T: types.Typ[types.Float64], S: fpLit(f, 64)}
	case *EBool:
		return boolVal(fmt.Sprint(x.Val))
	case *EStr:
		return Val{T: types.Typ[types.String], S: fv.strLit(x.Val)}
	case *ENil:
		return Val{IsNil: true, S: "0", T: types.Typ[types.UntypedNil]}
	case *EIdent:
		return ce.ident(x.Name)
	case *EUn:
		v := ce.eval(x.X)
		switch x.Op {
		case "!":
			return boolVal("(not " + ce.boolTerm(v) + ")")
		case "-":
			if v.T == untypedInt {
				return ce.intLit(new(big.Int).Neg(v.Const))
			}
			if _, ok := isFloat(v.T); ok {
				return Val{T: v.T, S: "(fp.neg " + v.S + ")"}
			}
			if m.BV {
				return Val{T: v.T, S: "(bvneg " + v.S + ")"}
			}
			return Val{T: v.T, S: "(- " + v.S + ")"}
		case "^":
			if m.BV {
				return Val{T: v.T, S: "(bvnot " + v.S + ")"}
			}
		}
		cfail("unary %s unsupported", x.Op)
	case *EBin:
		return ce.binary(x)
	case *ECond:
		c := ce.boolTerm(ce.eval(x.C))
		a, b := ce.eval(x.A), ce.eval(x.B)
		if a.T == untypedInt && b.T != untypedInt {
			a = ce.coerce(a, b.T)
		} else if b.T == untypedInt && a.T != untypedInt {
			b = ce.coerce(b, a.T)
		} else if a.T == untypedInt {
			a, b = ce.coerce(a, types.Typ[types.Int]), ce.coerce(b, types.Typ[types.Int])
		}
		if a.IsNil {
			a = ce.coerce(a, b.T)
		}
		if b.IsNil {
			b = ce.coerce(b, a.T)
		}
		return Val{T: a.T, S: "(ite " + c + " " + a.S + " " + b.S + ")"}
	case *EQuant:
		sub := *ce
		sub.bound = map[string]Val{}
		for k, v := range ce.bound {
			sub.bound[k] = v
		}
		var decl []string
		var guards []string
		for _, qv := range x.Vars {
			t := types.Type(types.Typ[types.Int])
			if qv.Type != "" {
				t = ce.typeByName(qv.Type)
				if t == nil {
					cfail("unknown type %s", qv.Type)
				}
			}
			n := fv.q.fresh("q." + qv.Name)
			sub.bound[qv.Name] = Val{T: t, S: n}
			sub.qdepth++
			decl = append(decl, "("+n+" "+fv.sortOf(t)+")")
			if w := fv.wf(n, t, nil); w != "true" && qv.Type != "" {
				guards = append(guards, w)
			}
		}
		body := sub.boolTerm(sub.eval(x.Body))
		q := "exists"
		if x.Forall {
			q = "forall"
			if len(guards) > 0 {
				body = "(=> " + andN(guards) + " " + body + ")"
			}
		} else if len(guards) > 0 {
			body = "(and " + andN(guards) + " " + body + ")"
		}
		return boolVal("(" + q + " (" + strings.Join(decl, " ") + ") " + body + ")")
	case *ESel:
		return ce.selector(x)
	case *EIndex:
		base := ce.eval(x.X)
		idx := ce.eval(x.I)
		return ce.index(base, idx)
	case *ESlice:
		base := ce.eval(x.X)
		if _, ok := base.T.Underlying().(*types.Slice); !ok {
			cfail("slice expression on %v", base.T)
		}
		lo, hi := m.idx(0), "(slen "+base.S+")"
		if x.Lo != nil {
			lo = ce.idxTerm(ce.eval(x.Lo))
		}
		if x.Hi != nil {
			hi = ce.idxTerm(ce.eval(x.Hi))
		}
		sub := func(a, b string) string {
			if m.BV {
				return "(bvsub " + a + " " + b + ")"
			}
			return "(- " + a + " " + b + ")"
		}
		return Val{T: base.T, S: fmt.Sprintf("(mk-slice (sbase %s) %s %s %s)", base.S, idxAdd(m, "(soff "+base.S+")", lo), sub(hi, lo), sub("(scap "+base.S+")", lo))}
	case *ECall:
		return ce.call(x)
	}
	cfail("unsupported expression %T", e)
	return Val{}
}

func (ce *CEnv) typeByName(name string) types.Type {
	name = strings.TrimSpace(name)
	if name == "interface{}" || name == "any" {
		return types.NewInterfaceType(nil, nil)
	}
	if name == "error" {
		return types.Universe.Lookup("error").Type()
	}
	if name == "*big.Int" {
		if ce.pkg != nil {
			for _, imp := range ce.pkg.Imports() {
				if imp.Path() == "math/big" {
					return types.NewPointer(imp.Scope().Lookup("Int").Type())
				}
			}
		}
	}
	if strings.HasPrefix(name, "[]") {
		if et := ce.typeByName(name[2:]); et != nil {
			return types.NewSlice(et)
		}
		return nil
	}
	if strings.HasPrefix(name, "*") {
		if et := ce.typeByName(name[1:]); et != nil {
			return types.NewPointer(et)
		}
		return nil
	}
	if i := strings.Index(name, "."); i > 0 && ce.pkg != nil {
		for _, imp := range ce.pkg.Imports() {
			if imp.Name() == name[:i] {
				if o := imp.Scope().Lookup(name[i+1:]); o != nil {
					if tn, ok := o.(*types.TypeName); ok {
						return tn.Type()
					}
				}
			}
		}
		// fall back to any loaded package of that name (the contract file's package may import it while the
		// package of the function being called does not)
		if p := ce.fv.eng.packageByName(name[:i], ce.pkgPath); p != nil {
			if tn, ok := p.Scope().Lookup(name[i+1:]).(*types.TypeName); ok {
				return tn.Type()
			}
		}
		return ce.fv.eng.lookupTypeInNamedPackages(name[:i], name[i+1:])
	}
	switch name {
	case "int":
		return types.Typ[types.Int]
	case "uint64":
		return types.Typ[types.Uint64]
	case "uint32":
		return types.Typ[types.Uint32]
	case "uint8", "byte":
		return types.Typ[types.Uint8]
	case "uint16":
		return types.Typ[types.Uint16]
	case "int64":
		return types.Typ[types.Int64]
	case "int32":
		return types.Typ[types.Int32]
	case "int8":
		return types.Typ[types.Int8]
	case "int16":
		return types.Typ[types.Int16]
	case "uint":
		return types.Typ[types.Uint]
	case "bool":
		return types.Typ[types.Bool]
	case "string":
		return types.Typ[types.String]
	case "float64":
		return types.Typ[types.Float64]
	case "float32":
		return types.Typ[types.Float32]
	case "ref":
		return types.NewPointer(types.Typ[types.Int])
	}
	if ce.pkg != nil {
		if o := ce.pkg.Scope().Lookup(name); o != nil {
			if tn, ok := o.(*types.TypeName); ok {
				return tn.Type()
			}
		}
	}
	// the package of the contract file that states the clause
	if p := ce.fv.eng.packageByPath(ce.pkgPath); p != nil {
		if tn, ok := p.Scope().Lookup(name).(*types.TypeName); ok {
			return tn.Type()
		}
	}
	return nil
}

func (ce *CEnv) ident(name string) Val {
	if v, ok := ce.bound[name]; ok {
		return v
	}
	if v, ok := ce.names[name]; ok {
		if v.Addr != nil {
			cfail("identifier %s denotes an interior address", name)
		}
		return v
	}
	if ce.self != nil {
		if v, ok := ce.fieldOf(*ce.self, name, false); ok {
			return v
		}
	}
	if c, ok := ce.fv.eng.cs.Consts[ce.pkgPath+"#"+name]; ok {
		n, _ := new(big.Int).SetString(c, 10)
		return ce.intLit(n)
	}
	if ce.pkg != nil {
		if o := ce.pkg.Scope().Lookup(name); o != nil {
			return ce.objectVal(o)
		}
	}
	if name == "alloc" {
		return Val{T: types.Typ[types.Int], S: ce.st.alloc}
	}
	cfail("unknown identifier %s", name)
	return Val{}
}

func (ce *CEnv) objectVal(o types.Object) Val {
	switch c := o.(type) {
	case *types.Const:
		switch c.Val().Kind() {
		case constant.Int:
			n, _ := new(big.Int).SetString(c.Val().ExactString(), 10)
			if c.Type() != nil {
				if b, _, ok := intInfo(c.Type()); ok && c.Type().Underlying().(*types.Basic).Info()&types.IsUntyped == 0 {
					return Val{T: c.Type(), S: ce.fv.mode.lit(n, b), Const: n}
				}
			}
			return ce.intLit(n)
		case constant.Bool:
			return boolVal(fmt.Sprint(constant.BoolVal(c.Val())))
		case constant.String:
			return Val{T: types.Typ[types.String], S: ce.fv.strLit(constant.StringVal(c.Val()))}
		case constant.Float:
			f, _ := constant.Float64Val(c.Val())
			return Val{T: types.Typ[types.Float64], S: fpLit(f, 64)}
		}
	case *types.Var:
		// package-level variable: global cell
		if c.Pkg() != nil && c.Parent() == c.Pkg().Scope() {
			key := "g:" + c.Pkg().Path() + "." + c.Name()
			if _, ok := ce.fv.arrSort[key]; !ok {
				ce.fv.arrSort[key] = ce.fv.sortOf(c.Type())
			}
			ce.fv.markGlobalRO(key, c)
			return Val{T: c.Type(), S: ce.fv.heapGet(ce.st, key)}
		}
	}
	cfail("object %s unusable in contract", o.Name())
	return Val{}
}

// fieldOf selects field name of x (pointer to struct or struct value).
func (ce *CEnv) fieldOf(x Val, name string, must bool) (Val, bool) {
	fv := ce.fv
	t := x.T
	if t == nil {
		return Val{}, false
	}
	if p, ok := t.Underlying().(*types.Pointer); ok {
		st, ok := p.Elem().Underlying().(*types.Struct)
		if !ok {
			return Val{}, false
		}
		for i := 0; i < st.NumFields(); i++ {
			f := st.Field(i)
			if f.Name() == name {
				if isBigInt(f.Type()) {
					cfail("big.Int by value")
				}
				k := fv.fieldKey(p.Elem(), st, i)
				if fv.isMatType(p.Elem()) {
					_, ebase, eidx := fv.erefFuns(p.Elem())
					ek := fv.elemsKey(p.Elem())
					alt := "(" + fv.fieldAcc(p.Elem(), st, i) + " (select (select " + fv.heapGet(ce.st, ek) + " (" + ebase + " " + x.S + ")) (" + eidx + " " + x.S + ")))"
					return Val{T: f.Type(), S: "(ite (< " + x.S + " 0) " + alt + " (select " + fv.heapGet(ce.st, k) + " " + x.S + "))"}, true
				}
				return ce.wfRead(Val{T: f.Type(), S: "(select " + fv.heapGet(ce.st, k) + " " + x.S + ")"}), true
			}
		}
		// promoted through embedded pointer/struct fields
		for i := 0; i < st.NumFields(); i++ {
			f := st.Field(i)
			if f.Embedded() {
				k := fv.fieldKey(p.Elem(), st, i)
				inner := Val{T: f.Type(), S: "(select " + fv.heapGet(ce.st, k) + " " + x.S + ")"}
				if v, ok := ce.fieldOf(inner, name, false); ok {
					return v, true
				}
			}
		}
		return Val{}, false
	}
	if st, ok := t.Underlying().(*types.Struct); ok {
		for i := 0; i < st.NumFields(); i++ {
			f := st.Field(i)
			if f.Name() == name {
				return Val{T: f.Type(), S: "(" + fv.fieldAcc(t, st, i) + " " + x.S + ")"}, true
			}
		}
		for i := 0; i < st.NumFields(); i++ {
			f := st.Field(i)
			if f.Embedded() {
				inner := Val{T: f.Type(), S: "(" + fv.fieldAcc(t, st, i) + " " + x.S + ")"}
				if v, ok := ce.fieldOf(inner, name, false); ok {
					return v, true
				}
			}
		}
	}
	return Val{}, false
}

// wfRead: a value read from the heap in a specification is a well-formed value of its Go type (ranges of machine integers
// etc.), exactly as for loads in the code. Inside quantifiers the fact is attached as a guard by the caller instead.
func (ce *CEnv) wfRead(v Val) Val {
	if ce.qdepth > 0 || ce.fv.mode.BV {
		return v
	}
	key := "wf:" + v.S
	if ce.fv.axiomsDone[key] {
		return v
	}
	switch v.T.Underlying().(type) {
	case *types.Basic, *types.Slice:
		if w := ce.fv.wf(v.S, v.T, nil); w != "true" {
			ce.fv.axiomsDone[key] = true
			ce.fv.q.assume(w)
		}
	}
	return v
}

func (ce *CEnv) selector(x *ESel) Val {
	// package-qualified identifier?
	if id, ok := x.X.(*EIdent); ok {
		if _, isName := ce.names[id.Name]; !isName {
			if _, isB := ce.bound[id.Name]; !isB && ce.pkg != nil {
				for _, imp := range ce.pkg.Imports() {
					if imp.Name() == id.Name {
						if o := imp.Scope().Lookup(x.Name); o != nil {
							return ce.objectVal(o)
						}
						cfail("%s.%s not found", id.Name, x.Name)
					}
				}
				if id.Name == ce.pkg.Name() {
					if o := ce.pkg.Scope().Lookup(x.Name); o != nil {
						return ce.objectVal(o)
					}
				}
				if _, isSelf := ce.fieldOfSelf(id.Name); !isSelf {
					if p := ce.fv.eng.packageByName(id.Name, ce.pkgPath); p != nil {
						if o := p.Scope().Lookup(x.Name); o != nil {
							return ce.objectVal(o)
						}
					}
				}
			}
		}
	}
	base := ce.eval(x.X)
	if v, ok := ce.fieldOf(base, x.Name, true); ok {
		return v
	}
	cfail("no field %s in %v", x.Name, base.T)
	return Val{}
}

func (ce *CEnv) index(base, idx Val) Val {
	fv := ce.fv
	m := fv.mode
	if base.T == nil {
		cfail("index of untyped")
	}
	switch u := base.T.Underlying().(type) {
	case *types.Slice:
		i := ce.idxTerm(idx)
		k := fv.elemsKey(u.Elem())
		off := "(+ (soff " + base.S + ") " + i + ")"
		if m.BV {
			off = "(bvadd (soff " + base.S + ") " + i + ")"
		}
		return ce.wfRead(Val{T: u.Elem(), S: "(select (select " + fv.heapGet(ce.st, k) + " (sbase " + base.S + ")) " + off + ")"})
	case *types.Array:
		return Val{T: u.Elem(), S: "(select " + base.S + " " + ce.idxTerm(idx) + ")"}
	case *types.Basic:
		if u.Kind() == types.String {
			return Val{T: types.Typ[types.Uint8], S: "(select (sarr " + base.S + ") " + ce.idxTerm(idx) + ")"}
		}
	case *types.Map:
		ks := fv.mapKeys(u)
		key := ce.coerce(idx, u.Key())
		return Val{T: u.Elem(), S: "(select (select " + fv.heapGet(ce.st, ks[1]) + " " + base.S + ") " + key.S + ")"}
	case *types.Pointer:
		if arr, ok := u.Elem().Underlying().(*types.Array); ok {
			k := fv.elemsKey(arr.Elem())
			return Val{T: arr.Elem(), S: "(select (select " + fv.heapGet(ce.st, k) + " " + base.S + ") " + ce.idxTerm(idx) + ")"}
		}
	}
	cfail("cannot index %v", base.T)
	return Val{}
}

func (ce *CEnv) idxTerm(v Val) string {
	v = ce.coerce(v, types.Typ[types.Int])
	b, s, ok := intInfo(v.T)
	if !ok {
		cfail("integer index expected")
	}
	return ce.fv.mode.convInt(v.S, b, s, 64, true)
}

func (ce *CEnv) binary(x *EBin) Val {
	fv := ce.fv
	m := fv.mode
	switch x.Op {
	case "&&":
		return boolVal("(and " + ce.boolTerm(ce.eval(x.L)) + " " + ce.boolTerm(ce.eval(x.R)) + ")")
	case "||":
		return boolVal("(or " + ce.boolTerm(ce.eval(x.L)) + " " + ce.boolTerm(ce.eval(x.R)) + ")")
	case "==>":
		return boolVal("(=> " + ce.boolTerm(ce.eval(x.L)) + " " + ce.boolTerm(ce.eval(x.R)) + ")")
	case "<==>":
		return boolVal("(= " + ce.boolTerm(ce.eval(x.L)) + " " + ce.boolTerm(ce.eval(x.R)) + ")")
	}
	a, b := ce.eval(x.L), ce.eval(x.R)
	switch x.Op {
	case "==", "!=":
		var eq string
		switch {
		case a.IsNil && b.IsNil:
			eq = "true"
		case a.IsNil || b.IsNil:
			o := a
			if a.IsNil {
				o = b
			}
			switch o.T.Underlying().(type) {
			case *types.Slice:
				eq = "(= (sbase " + o.S + ") 0)"
			case *types.Interface:
				eq = "(= (itag " + o.S + ") 0)"
			default:
				eq = "(= " + o.S + " 0)"
			}
		default:
			if _, _, ok := intInfo(a.T); ok || a.T == untypedInt {
				a2, b2, _, _ := ce.unify(a, b)
				eq = "(= " + a2.S + " " + b2.S + ")"
			} else if _, ok := isFloat(a.T); ok {
				b = ce.coerce(b, a.T)
				eq = "(fp.eq " + a.S + " " + b.S + ")"
			} else if b.T == untypedInt {
				cfail("type mismatch in ==")
			} else {
				eq = "(= " + a.S + " " + b.S + ")"
			}
		}
		if x.Op == "!=" {
			return boolVal("(not " + eq + ")")
		}
		return boolVal(eq)
	case "<", "<=", ">", ">=":
		if _, ok := isFloat(a.T); ok {
			b = ce.coerce(b, a.T)
			f := map[string]string{"<": "fp.lt", "<=": "fp.leq", ">": "fp.gt", ">=": "fp.geq"}[x.Op]
			return boolVal("(" + f + " " + a.S + " " + b.S + ")")
		}
		if _, ok := isFloat(b.T); ok {
			a = ce.coerce(a, b.T)
			f := map[string]string{"<": "fp.lt", "<=": "fp.leq", ">": "fp.gt", ">=": "fp.geq"}[x.Op]
			return boolVal("(" + f + " " + a.S + " " + b.S + ")")
		}
		a2, b2, _, signed := ce.unify(a, b)
		return boolVal(m.cmp(x.Op, a2.S, b2.S, signed))
	}
	// arithmetic
	if a.T == untypedInt && b.T == untypedInt {
		r := new(big.Int)
		switch x.Op {
		case "+":
			r.Add(a.Const, b.Const)
		case "-":
			r.Sub(a.Const, b.Const)
		case "*":
			r.Mul(a.Const, b.Const)
		case "/":
			r.Quo(a.Const, b.Const)
		case "%":
			r.Rem(a.Const, b.Const)
		case "<<":
			r.Lsh(a.Const, uint(b.Const.Int64()))
		case ">>":
			r.Rsh(a.Const, uint(b.Const.Int64()))
		case "&":
			r.And(a.Const, b.Const)
		case "|":
			r.Or(a.Const, b.Const)
		default:
			cfail("constant op %s", x.Op)
		}
		return ce.intLit(r)
	}
	if _, ok := isFloat(a.T); ok || func() bool { _, o := isFloat(b.T); return o }() {
		if _, ok := isFloat(a.T); !ok {
			a = ce.coerce(a, b.T)
		} else {
			b = ce.coerce(b, a.T)
		}
		f := map[string]string{"+": "fp.add", "-": "fp.sub", "*": "fp.mul", "/": "fp.div"}[x.Op]
		if f == "" {
			cfail("float op %s", x.Op)
		}
		return Val{T: a.T, S: "(" + f + " RNE " + a.S + " " + b.S + ")"}
	}
	if x.Op == "<<" || x.Op == ">>" {
		if a.T == untypedInt {
			a = ce.coerce(a, types.Typ[types.Int])
		}
		bits, signed, _ := intInfo(a.T)
		if m.BV {
			cnt := ce.coerce(b, a.T)
			cb, _, _ := intInfo(cnt.T)
			c := cnt.S
			if cb != bits {
				c = m.convInt(c, cb, false, bits, false)
			}
			op := "bvshl"
			if x.Op == ">>" {
				op = "bvlshr"
				if signed {
					op = "bvashr"
				}
			}
			return Val{T: a.T, S: "(" + op + " " + a.S + " " + c + ")"}
		}
		if b.Const == nil {
			cfail("symbolic shift in int-mode contract")
		}
		k := int(b.Const.Int64())
		if x.Op == "<<" {
			return Val{T: a.T, S: "(* " + a.S + " " + pow2(k).String() + ")"}
		}
		return Val{T: a.T, S: "(div " + a.S + " " + pow2(k).String() + ")"}
	}
	a2, b2, bits, signed := ce.unify(a, b)
	rt := a2.T
	if m.BV {
		res, _, _, err := m.arith(x.Op, a2.S, b2.S, bits, signed)
		if err != nil {
			cfail("%v", err)
		}
		return Val{T: rt, S: res}
	}
	switch x.Op {
	case "+", "-", "*":
		return Val{T: rt, S: "(" + x.Op + " " + a2.S + " " + b2.S + ")"}
	case "/":
		if signed {
			return Val{T: rt, S: "(tdiv " + a2.S + " " + b2.S + ")"}
		}
		return Val{T: rt, S: "(div " + a2.S + " " + b2.S + ")"}
	case "%":
		if signed {
			return Val{T: rt, S: "(trem " + a2.S + " " + b2.S + ")"}
		}
		return Val{T: rt, S: "(mod " + a2.S + " " + b2.S + ")"}
	case "&":
		if b2.Const != nil {
			if k, ok := isPow2Minus1(b2.Const); ok {
				return Val{T: rt, S: "(mod " + a2.S + " " + pow2(k).String() + ")"}
			}
		}
	}
	cfail("operator %s unsupported in int-mode contract", x.Op)
	return Val{}
}

func (ce *CEnv) call(x *ECall) Val {
	fv := ce.fv
	m := fv.mode
	// inv.name(x)
	if sel, ok := x.Fn.(*ESel); ok {
		if id, ok := sel.X.(*EIdent); ok && id.Name == "inv" && len(x.Args) == 1 {
			v := ce.eval(x.Args[0])
			ss := ce.structSpecOf(v.T)
			if ss == nil {
				cfail("no struct spec for %v", v.T)
			}
			for _, ic := range ss.Invariants {
				if ic.Label == sel.Name {
					return boolVal(ce.evalInv(ic, v))
				}
			}
			cfail("no invariant %s", sel.Name)
		}
		// package-qualified function
		if id, ok := sel.X.(*EIdent); ok && ce.pkg != nil {
			if _, isName := ce.names[id.Name]; !isName {
				if _, isB := ce.bound[id.Name]; !isB {
					for _, imp := range ce.pkg.Imports() {
						if imp.Name() == id.Name {
							if f, ok := imp.Scope().Lookup(sel.Name).(*types.Func); ok {
								return ce.pureCall(f, nil, x.Args)
							}
							cfail("%s.%s is not a function", id.Name, sel.Name)
						}
					}
					if _, isSelf := ce.fieldOfSelf(id.Name); !isSelf {
						if p := ce.fv.eng.packageByName(id.Name, ce.pkgPath); p != nil {
							if f, ok := p.Scope().Lookup(sel.Name).(*types.Func); ok {
								return ce.pureCall(f, nil, x.Args)
							}
						}
					}
				}
			}
		}
		// method call on a value: pure method => uninterpreted function of receiver and args
		return ce.methodCall(sel, x.Args)
	}
	id, ok := x.Fn.(*EIdent)
	if !ok {
		cfail("unsupported call")
	}
	arg := func(i int) Val {
		if i >= len(x.Args) {
			cfail("%s: missing argument", id.Name)
		}
		return ce.eval(x.Args[i])
	}
	switch id.Name {
	case "old":
		sub := *ce
		sub.st = ce.old
		return sub.eval(x.Args[0])
	case "inv":
		v := arg(0)
		ss := ce.structSpecOf(v.T)
		if ss == nil {
			cfail("no struct spec for %v", v.T)
		}
		var ps []string
		for _, ic := range ss.Invariants {
			ps = append(ps, ce.evalInv(ic, v))
		}
		return boolVal(andN(ps))
	case "len":
		v := arg(0)
		switch u := v.T.Underlying().(type) {
		case *types.Slice:
			return Val{T: types.Typ[types.Int], S: "(slen " + v.S + ")"}
		case *types.Basic:
			return Val{T: types.Typ[types.Int], S: "(strlen " + v.S + ")"}
		case *types.Array:
			return ce.intLit(big.NewInt(u.Len()))
		case *types.Map:
			ks := fv.mapKeys(u)
			card := "(select " + fv.heapGet(ce.st, ks[2]) + " " + v.S + ")"
			if ce.qdepth == 0 && len(ce.bound) == 0 {
				fv.q.assume("(and " + fv.mode.cmp(">=", card, fv.mode.idx(0), true) + " " + fv.mode.cmp("<=", card, fv.mode.idx(281474976710655), true) + ")")
			}
			return Val{T: types.Typ[types.Int], S: card}
		}
		cfail("len of %v", v.T)
	case "cap":
		return Val{T: types.Typ[types.Int], S: "(scap " + arg(0).S + ")"}
	case "off":
		return Val{T: types.Typ[types.Int], S: "(soff " + arg(0).S + ")"}
	case "base":
		return Val{T: types.NewPointer(types.Typ[types.Int]), S: "(sbase " + arg(0).S + ")"}
	case "fresh":
		v := arg(0)
		r := v.S
		if _, ok := v.T.Underlying().(*types.Slice); ok {
			r = "(sbase " + v.S + ")"
		}
		return boolVal("(and (>= " + r + " " + ce.old.alloc + ") (< " + r + " " + ce.st.alloc + "))")
	case "allocated":
		v := arg(0)
		r := v.S
		if _, ok := v.T.Underlying().(*types.Slice); ok {
			r = "(sbase " + v.S + ")"
		}
		return boolVal("(< " + r + " " + ce.st.alloc + ")")
	case "big":
		v := arg(0)
		fv.cellKey(bigIntType(v.T))
		return Val{T: mathInt, S: "(select " + fv.heapGet(ce.st, "big") + " " + v.S + ")"}
	case "min", "max":
		a, b := arg(0), arg(1)
		a2, b2, _, signed := ce.unify(a, b)
		op := "<="
		if id.Name == "max" {
			op = ">="
		}
		return Val{T: a2.T, S: "(ite " + m.cmp(op, a2.S, b2.S, signed) + " " + a2.S + " " + b2.S + ")"}
	case "isNil":
		v := arg(0)
		switch v.T.Underlying().(type) {
		case *types.Interface:
			return boolVal("(or (= (itag " + v.S + ") 0) (= (ival " + v.S + ") 0))")
		case *types.Slice:
			return boolVal("(= (sbase " + v.S + ") 0)")
		}
		return boolVal("(= " + v.S + " 0)")
	case "eqRange":
		// eqRange(a, i, b, j, n): a[i..i+n) == b[j..j+n)
		a, i, b, j, n := arg(0), ce.idxTerm(arg(1)), arg(2), ce.idxTerm(arg(3)), ce.idxTerm(arg(4))
		qn := fv.q.fresh("q.k")
		ce.qdepth++
		ia := ce.index(a, Val{T: types.Typ[types.Int], S: idxAdd(m, i, qn)})
		ib := ce.index(b, Val{T: types.Typ[types.Int], S: idxAdd(m, j, qn)})
		ce.qdepth--
		return boolVal(fmt.Sprintf("(forall ((%s %s)) (=> (and %s %s) (= %s %s)))", qn, m.idxSort(), m.cmp("<=", m.idx(0), qn, true), m.cmp("<", qn, n, true), ia.S, ib.S))
	case "bytesEq":
		a, b := arg(0), arg(1)
		la, lb := ce.lenTerm(a), ce.lenTerm(b)
		qn := fv.q.fresh("q.k")
		ce.qdepth++
		ia := ce.index(a, Val{T: types.Typ[types.Int], S: qn})
		ib := ce.index(b, Val{T: types.Typ[types.Int], S: qn})
		ce.qdepth--
		return boolVal(fmt.Sprintf("(and (= %s %s) (forall ((%s %s)) (=> (and %s %s) (= %s %s))))", la, lb, qn, m.idxSort(), m.cmp("<=", m.idx(0), qn, true), m.cmp("<", qn, la, true), ia.S, ib.S))
	case "held":
		k := fv.lockKeyFromSpecEnv(ce, x.Args[0])
		return boolVal("(= " + lockTerm(ce.st, k) + " 2)")
	case "heldR":
		k := fv.lockKeyFromSpecEnv(ce, x.Args[0])
		return boolVal("(>= " + lockTerm(ce.st, k) + " 1)")
	case "typeIs":
		// typeIs(x, T)
		v := arg(0)
		var tname string
		switch tn := x.Args[1].(type) {
		case *EIdent:
			tname = tn.Name
		case *ESel:
			if id, ok := tn.X.(*EIdent); ok {
				tname = id.Name + "." + tn.Name
			}
		}
		if tname == "" {
			cfail("typeIs needs a type name")
		}
		t := ce.typeByName(strings.TrimPrefix(tname, "ptr_"))
		if t == nil {
			cfail("unknown type %s", tname)
		}
		if strings.HasPrefix(tname, "ptr_") {
			t = types.NewPointer(t)
		}
		return boolVal(fmt.Sprintf("(= (itag %s) %d)", v.S, fv.typeTag(t)))
	case "next", "prev", "owner":
		// container/list views (raw links; the sentinel of list l is l itself)
		e := arg(0)
		return Val{T: e.T, S: fv.lget(ce.st, "list."+id.Name, e.S)}
	case "llen":
		return Val{T: types.Typ[types.Int], S: fv.lget(ce.st, "list.len", arg(0).S)}
	case "front", "back":
		l := arg(0)
		key := "list.next"
		if id.Name == "back" {
			key = "list.prev"
		}
		lk := fv.lget(ce.st, key, l.S)
		var et types.Type = types.NewPointer(types.Typ[types.Int])
		if lt := ce.typeByName("*list.Element"); lt != nil {
			et = lt
		} else if p := ce.fv.eng.packageByName("list", "container/list"); p != nil {
			if tn, ok := p.Scope().Lookup("Element").(*types.TypeName); ok {
				et = types.NewPointer(tn.Type())
			}
		}
		if len(x.Args) > 1 {
			et = arg(1).T // front(l, e): typed like the element e
		}
		return Val{T: et, S: "(ite (= " + lk + " " + l.S + ") 0 " + lk + ")"}
	case "wfList":
		return boolVal(fv.wfListTerm(ce.st, arg(0).S))
	case "inList":
		// inList(l, e): e is an element currently linked into l
		l, e := arg(0), arg(1)
		return boolVal("(and (not (= " + e.S + " 0)) (= " + fv.lget(ce.st, "list.owner", e.S) + " " + l.S + "))")
	case "elemIndex", "pointsInto":
		// element references (&s[i] used as a value): elemIndex(p, s) = i, pointsInto(p, s) = p denotes an element of s
		p, s := arg(0), arg(1)
		pp, ok := p.T.Underlying().(*types.Pointer)
		if !ok {
			cfail("%s: pointer expected", id.Name)
		}
		if fv.matTypes == nil {
			fv.matTypes = map[string]types.Type{}
		}
		fv.matTypes[typeKey(pp.Elem())] = pp.Elem()
		_, ebase, eidx := fv.erefFuns(pp.Elem())
		var rel string
		if m.BV {
			rel = "(bvsub (" + eidx + " " + p.S + ") (soff " + s.S + "))"
		} else {
			rel = "(- (" + eidx + " " + p.S + ") (soff " + s.S + "))"
		}
		if id.Name == "elemIndex" {
			return Val{T: types.Typ[types.Int], S: rel}
		}
		return boolVal("(and (< " + p.S + " 0) (= (" + ebase + " " + p.S + ") (sbase " + s.S + ")) " + m.cmp("<=", m.idx(0), rel, true) + " " + m.cmp("<", rel, "(slen "+s.S+")", true) + ")")
	case "bytesLess":
		// bytesLess(a, b): bytes.Compare(a, b) < 0 — the same strict total order the bytes.Compare model uses
		a, b := arg(0), arg(1)
		sa, sb := fv.bytesToString(ce.st, a.S), fv.bytesToString(ce.st, b.S)
		fv.q.declareFun("bytes.lt", []string{"Str", "Str"}, "Bool")
		if ce.qdepth == 0 {
			fv.q.assume("(not (and (bytes.lt " + sa + " " + sb + ") (bytes.lt " + sb + " " + sa + ")))")
			fv.q.assume("(=> (not (= " + sa + " " + sb + ")) (or (bytes.lt " + sa + " " + sb + ") (bytes.lt " + sb + " " + sa + ")))")
			fv.q.assume("(not (bytes.lt " + sa + " " + sa + "))")
		}
		if !fv.axiomsDone["bytes.lt.trans"] {
			fv.axiomsDone["bytes.lt.trans"] = true
			fv.q.assume("(forall ((x Str) (y Str) (z Str)) (! (=> (and (bytes.lt x y) (bytes.lt y z)) (bytes.lt x z)) :pattern ((bytes.lt x y) (bytes.lt y z))))")
			fv.note("model: bytes.Compare is a strict total order on contents (transitive)")
		}
		return boolVal("(bytes.lt " + sa + " " + sb + ")")
	case "visited":
		// visited(k) / visited(k, N): key k was already yielded by the map range loop (loop N of the function)
		n := 0
		if len(x.Args) > 1 {
			if lit, ok := x.Args[1].(*EInt); ok {
				fmt.Sscanf(lit.Val, "%d", &n)
			}
		}
		rng := fv.rangeForVisited(n)
		if rng == nil {
			cfail("visited: no (unique) map range loop; write visited(k, N) with the loop number")
		}
		mt := rng.X.Type().Underlying().(*types.Map)
		key := fv.seenKey(rng)
		if _, have := fv.arrSort[key]; !have {
			// the range statement has not been executed yet on this path: nothing visited
			return boolVal("false")
		}
		k := ce.coerce(arg(0), mt.Key())
		return boolVal("(select " + fv.heapGet(ce.st, key) + " " + k.S + ")")
	case "has":
		// has(m, k): key k is in map m
		v := arg(0)
		u, ok := v.T.Underlying().(*types.Map)
		if !ok {
			cfail("has: map expected")
		}
		ks := fv.mapKeys(u)
		key := ce.coerce(arg(1), u.Key())
		hasT := "(select (select " + fv.heapGet(ce.st, ks[0]) + " " + v.S + ") " + key.S + ")"
		if ce.qdepth == 0 && len(ce.bound) == 0 {
			// map representation facts: a key in the domain => the map is not nil and its length is at least 1
			card := "(select " + fv.heapGet(ce.st, ks[2]) + " " + v.S + ")"
			fv.q.assume("(=> " + hasT + " (and (not (= " + v.S + " 0)) " + fv.mode.cmp(">=", card, fv.mode.idx(1), true) + "))")
		}
		return boolVal(hasT)
	case "iface":
		// iface(x): x converted to interface{}
		v := arg(0)
		if _, isI := v.T.Underlying().(*types.Interface); isI {
			return v
		}
		return Val{T: types.NewInterfaceType(nil, nil), S: fv.makeIface(v, v.T)}
	case "payload":
		// payload(x, ptr_pkg.T): the dynamic value of interface x viewed at type T (meaningful when typeIs(x, T))
		v := arg(0)
		var tname string
		switch tn := x.Args[1].(type) {
		case *EIdent:
			tname = tn.Name
		case *ESel:
			if id, ok := tn.X.(*EIdent); ok {
				tname = id.Name + "." + tn.Name
			}
		}
		t := ce.typeByName(strings.TrimPrefix(tname, "ptr_"))
		if t == nil {
			cfail("payload: unknown type %s", tname)
		}
		if strings.HasPrefix(tname, "ptr_") {
			t = types.NewPointer(t)
		}
		return Val{T: t, S: fv.unboxIface(v.S, t)}
	case "flagSet":
		v := arg(0)
		st, ok := v.T.Underlying().(*types.Struct)
		if !ok || st.NumFields() != 1 {
			cfail("flagSet of %v", v.T)
		}
		return boolVal("(= (" + fv.fieldAcc(v.T, st, 0) + " " + v.S + ") " + m.litI(1, 32) + ")")
	case "concat":
		a, b := arg(0), arg(1)
		return Val{T: types.Typ[types.String], S: fv.strConcat(a.S, b.S)}
	case "str":
		v := arg(0)
		if _, ok := v.T.Underlying().(*types.Slice); !ok {
			cfail("str() of %v", v.T)
		}
		if ce.qdepth > 0 {
			// under a quantifier the defining axioms cannot be asserted at top level: use the raw application
			// (equal content windows of the same array still give equal terms)
			bsort := "Int"
			if m.BV {
				bsort = "(_ BitVec 8)"
			}
			k := fv.elemsKey(types.Typ[types.Uint8])
			fv.q.declareFun("str.of", []string{"(Array " + m.idxSort() + " " + bsort + ")", m.idxSort(), m.idxSort()}, "Str")
			return Val{T: types.Typ[types.String], S: "(str.of (select " + fv.heapGet(ce.st, k) + " (sbase " + v.S + ")) (soff " + v.S + ") (slen " + v.S + "))"}
		}
		return Val{T: types.Typ[types.String], S: fv.bytesToString(ce.st, v.S)}
	case "popcount8":
		v := ce.coerce(arg(0), types.Typ[types.Uint8])
		return Val{T: types.Typ[types.Int], S: fv.popcount8(v.S)}
	case "toInt":
		// mathematical value (int mode) / zero-extension to 64 (bv mode) of an unsigned value
		v := arg(0)
		b, s, ok := intInfo(v.T)
		if !ok {
			cfail("toInt of non-integer")
		}
		return Val{T: types.Typ[types.Int], S: m.convInt(v.S, b, s, 64, true)}
	}
	// conversions by type name
	if t := ce.typeByName(id.Name); t != nil && len(x.Args) == 1 {
		v := arg(0)
		if v.T == untypedInt {
			return ce.coerce(v, t)
		}
		fb, fs, fint := intInfo(v.T)
		tb, ts, tint := intInfo(t)
		if fint && tint {
			return Val{T: t, S: m.convInt(v.S, fb, fs, tb, ts)}
		}
		if fint {
			if b, ok := isFloat(t); ok {
				if m.BV {
					if fs {
						return Val{T: t, S: fmt.Sprintf("((_ to_fp %s) RNE %s)", fpDims(b), v.S)}
					}
					return Val{T: t, S: fmt.Sprintf("((_ to_fp_unsigned %s) RNE %s)", fpDims(b), v.S)}
				}
				return Val{T: t, S: fmt.Sprintf("((_ to_fp %s) RNE (to_real %s))", fpDims(b), v.S)}
			}
		}
		cfail("conversion %v -> %s unsupported in contract", v.T, id.Name)
	}
	// spec functions
	if sf := ce.findSpecFn(id.Name); sf != nil {
		return ce.specCall(sf, x.Args)
	}
	// pure Go function of the package
	if ce.pkg != nil {
		if o := ce.pkg.Scope().Lookup(id.Name); o != nil {
			if f, ok := o.(*types.Func); ok {
				return ce.pureCall(f, nil, x.Args)
			}
		}
	}
	cfail("unknown function %s", id.Name)
	return Val{}
}

var mathInt = types.Typ[types.Int] // used for big(x): in int mode a mathematical integer

func bigIntType(t types.Type) types.Type {
	if p, ok := t.Underlying().(*types.Pointer); ok {
		return p.Elem()
	}
	return t
}

func idxAdd(m Mode, a, b string) string {
	if m.BV {
		return "(bvadd " + a + " " + b + ")"
	}
	return "(+ " + a + " " + b + ")"
}

func (ce *CEnv) lenTerm(v Val) string {
	switch v.T.Underlying().(type) {
	case *types.Slice:
		return "(slen " + v.S + ")"
	case *types.Basic:
		return "(strlen " + v.S + ")"
	}
	cfail("len of %v", v.T)
	return ""
}

func (ce *CEnv) findSpecFn(name string) *SpecFn {
	if sf, ok := ce.fv.eng.cs.SpecFns[ce.pkgPath+"#"+name]; ok {
		return sf
	}
	for k, sf := range ce.fv.eng.cs.SpecFns {
		if strings.HasSuffix(k, "#"+name) {
			return sf
		}
	}
	return nil
}

func (ce *CEnv) specCall(sf *SpecFn, args []Expr) Val {
	fv := ce.fv
	if len(args) != len(sf.Params) {
		cfail("spec fn %s: %d arguments expected", sf.Name, len(sf.Params))
	}
	var vals []Val
	for i, a := range args {
		v := ce.eval(a)
		if t := ce.typeByName(sf.Params[i].Type); t != nil {
			v = ce.coerce(v, t)
			if _, isI := t.Underlying().(*types.Interface); isI && v.T != nil {
				if _, vI := v.T.Underlying().(*types.Interface); !vI {
					v = Val{T: t, S: fv.makeIface(v, v.T)}
				}
			}
		} else if v.T == untypedInt {
			v = ce.coerce(v, types.Typ[types.Int])
		}
		vals = append(vals, v)
	}
	if sf.Body != nil {
		// inline; names in the body are resolved in the package of the contract file that defines the spec fn
		sub := *ce
		if sf.PkgPath != "" && sf.PkgPath != ce.pkgPath {
			if p := fv.eng.packageByPath(sf.PkgPath); p != nil {
				sub.pkg = p
				sub.pkgPath = sf.PkgPath
			}
		}
		sub.names = map[string]Val{}
		for k, v := range ce.names {
			sub.names[k] = v
		}
		sub.bound = map[string]Val{}
		for k, v := range ce.bound {
			sub.bound[k] = v
		}
		for i, p := range sf.Params {
			sub.bound[p.Name] = vals[i]
		}
		r := sub.eval(sf.Body)
		if sf.Result != "" {
			if t := ce.typeByName(sf.Result); t != nil {
				r = ce.coerce(r, t)
				if r.T != nil {
					_, rp := r.T.Underlying().(*types.Pointer)
					_, tp := t.Underlying().(*types.Pointer)
					if rp && tp {
						r.T = t // declared pointer type wins (e.g. results of next()/front() views)
					}
				}
			}
		}
		return r
	}
	// uninterpreted, with axioms asserted once
	rt := ce.typeByName(sf.Result)
	if rt == nil {
		cfail("spec fn %s: unknown result type %q", sf.Name, sf.Result)
	}
	var sorts, terms []string
	for _, v := range vals {
		sorts = append(sorts, fv.sortOf(v.T))
		terms = append(terms, v.S)
	}
	name := "spec." + sf.Name
	fv.q.declareFun(name, sorts, fv.sortOf(rt))
	if !fv.axiomsDone[name] {
		fv.axiomsDone[name] = true
		for _, ax := range sf.Axioms {
			sub := *ce
			sub.bound = map[string]Val{}
			sub.names = map[string]Val{}
			var decl []string
			for i, p := range sf.Params {
				n := fv.q.fresh("ax." + p.Name)
				sub.bound[p.Name] = Val{T: vals[i].T, S: n}
				sub.qdepth++
				decl = append(decl, "("+n+" "+fv.sortOf(vals[i].T)+")")
			}
			t := sub.boolTerm(sub.eval(ax.E))
			if len(decl) > 0 {
				var bn []string
				for _, p := range sf.Params {
					bn = append(bn, sub.bound[p.Name].S)
				}
				app := "(" + name + " " + strings.Join(bn, " ") + ")"
				if strings.Contains(t, app) {
					t = "(! " + t + " :pattern (" + app + "))"
				}
				t = "(forall (" + strings.Join(decl, " ") + ") " + t + ")"
			}
			fv.q.assume(t)
			fv.note("axiom of spec fn " + sf.Name + ": " + ax.Src)
		}
	}
	if len(terms) == 0 {
		return Val{T: rt, S: name}
	}
	return Val{T: rt, S: "(" + name + " " + strings.Join(terms, " ") + ")"}
}

// pureCall: application of a Go function in a contract = uninterpreted function (the callee's contract must be `pure`).
func (ce *CEnv) pureCall(f *types.Func, recv *Val, args []Expr) Val {
	fv := ce.fv
	sig := f.Type().(*types.Signature)
	var sorts, terms []string
	if recv != nil {
		sorts = append(sorts, fv.sortOf(recv.T))
		terms = append(terms, recv.S)
	}
	if len(args) != sig.Params().Len() {
		cfail("%s: wrong number of arguments", f.Name())
	}
	for i, a := range args {
		v := ce.coerce(ce.eval(a), sig.Params().At(i).Type())
		sorts = append(sorts, fv.sortOf(sig.Params().At(i).Type()))
		terms = append(terms, v.S)
	}
	if sig.Results().Len() != 1 {
		cfail("%s: single result expected", f.Name())
	}
	rt := sig.Results().At(0).Type()
	name := pureFnName(f)
	fv.q.declareFun(name, sorts, fv.sortOf(rt))
	fv.pureRangeAxiom(name, sorts, rt)
	if len(terms) == 0 {
		return Val{T: rt, S: name}
	}
	app := "(" + name + " " + strings.Join(terms, " ") + ")"
	res := Val{T: rt, S: app}
	if recv != nil && ce.qdepth == 0 {
		if _, isI := recv.T.Underlying().(*types.Interface); isI {
			fv.pureApps = append(fv.pureApps, pureApp{obj: f, recv: recv.S, nargs: len(args), res: res})
		}
	}
	// function axiom: the (verified or trusted) contract of a pure function holds for this application
	if ce.qdepth == 0 && !fv.axiomsDone["app:"+app] {
		fv.axiomsDone["app:"+app] = true
		var fc *FuncContract
		if f.Pkg() != nil {
			key := f.Name()
			if r := sig.Recv(); r != nil {
				if n, ok := derefNamed(r.Type()); ok {
					if _, isI := n.Underlying().(*types.Interface); isI {
						fc = fv.ifaceContract(n, f.Name())
						key = ""
					} else {
						key = n.Obj().Name() + "." + f.Name()
					}
				}
			}
			if key != "" {
				fc = fv.eng.cs.Funcs[f.Pkg().Path()+"#"+key]
			}
			if fc == nil {
				fc = fv.externContract(f)
			}
		}
		if fc != nil && fc.Pure && len(fc.Ensures) > 0 {
			names := map[string]Val{}
			if recv != nil && fc.RecvName != "" {
				names[fc.RecvName] = *recv
			}
			off := 0
			if recv != nil {
				off = 1
			}
			for i, p := range fc.Params {
				if off+i < len(terms) {
					names[p.Name] = Val{T: sig.Params().At(i).Type(), S: terms[off+i]}
				}
			}
			if len(fc.Results) > 0 {
				names[fc.Results[0].Name] = res
			}
			sub := fv.newCEnv(names, ce.st, ce.st)
			sub.pkg = f.Pkg()
			sub.pkgPath = fc.PkgPath
			var pre, post []string
			ok := true
			func() {
				defer func() {
					if r := recover(); r != nil {
						if _, isU := r.(unsupportedErr); isU {
							ok = false
							return
						}
						panic(r)
					}
				}()
				for _, c := range fc.Requires {
					for _, p := range sub.evalClause(c) {
						pre = append(pre, p.term)
					}
				}
				for _, c := range fc.Ensures {
					for _, p := range sub.evalClause(c) {
						post = append(post, p.term)
					}
				}
			}()
			if ok && len(post) > 0 {
				fv.q.assume("(=> " + andN(pre) + " " + andN(post) + ")")
				fv.note("function axiom: contract of pure " + f.FullName() + " assumed for its applications in specifications")
			}
		}
	}
	return res
}

// pureRangeAxiom: results of pure functions are well-formed values of their Go type.
func (fv *FnVerifier) pureRangeAxiom(name string, sorts []string, rt types.Type) {
	if fv.axiomsDone["range:"+name] {
		return
	}
	fv.axiomsDone["range:"+name] = true
	var decl, vars []string
	for i, s := range sorts {
		v := fmt.Sprintf("a%d", i)
		decl = append(decl, "("+v+" "+s+")")
		vars = append(vars, v)
	}
	app := name
	if len(vars) > 0 {
		app = "(" + name + " " + strings.Join(vars, " ") + ")"
	}
	// references returned by pure functions denote objects that existed when the verified function was entered
	// (a pure function is a function of its arguments; it cannot return one of the caller's fresh local objects)
	w := fv.wf(app, rt, &State{alloc: "alloc0"})
	if w == "true" {
		return
	}
	if len(vars) == 0 {
		fv.q.assume(w)
		return
	}
	fv.q.assume("(forall (" + strings.Join(decl, " ") + ") (! " + w + " :pattern (" + app + ")))")
}

func pureFnName(f *types.Func) string {
	return "pure." + sanitize(f.FullName())
}

func (ce *CEnv) methodCall(sel *ESel, args []Expr) Val {
	recv := ce.eval(sel.X)
	if recv.T == nil {
		cfail("method call on untyped value")
	}
	ms := types.NewMethodSet(recv.T)
	s := ms.Lookup(ce.pkg, sel.Name)
	if s == nil {
		if _, isPtr := recv.T.Underlying().(*types.Pointer); !isPtr {
			ms = types.NewMethodSet(types.NewPointer(recv.T))
			s = ms.Lookup(ce.pkg, sel.Name)
		}
	}
	if s == nil {
		cfail("no method %s on %v", sel.Name, recv.T)
	}
	return ce.pureCall(s.Obj().(*types.Func), &recv, args)
}
