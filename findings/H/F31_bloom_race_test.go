package bloom

// Hand-made reproduction of F31 (property C31): MayContain and Clear touch the filter bytes without the mutex that Add
// holds while writing them -> data race for concurrent add/query (and add/clear).
// Run: cd $WT && go test -race -overlay <ov.json> -vet=off -run TestVerifF31 ./storage/bloom/

import (
	"sync"
	"testing"
)

func TestVerifF31_AddVersusMayContain(t *testing.T) {
	b := NewDefaultFilter()
	var wg sync.WaitGroup
	wg.Add(2)
	go func() {
		defer wg.Done()
		for i := 0; i < 200; i++ {
			b.Add([]byte{byte(i), 1, 2, 3})
		}
	}()
	go func() {
		defer wg.Done()
		for i := 0; i < 200; i++ {
			_ = b.MayContain([]byte{byte(i), 1, 2, 3})
		}
	}()
	wg.Wait()
}

func TestVerifF31_AddVersusClear(t *testing.T) {
	b := NewDefaultFilter()
	var wg sync.WaitGroup
	wg.Add(2)
	go func() {
		defer wg.Done()
		for i := 0; i < 200; i++ {
			b.Add([]byte{byte(i), 1, 2, 3})
		}
	}()
	go func() {
		defer wg.Done()
		for i := 0; i < 20; i++ {
			b.Clear()
		}
	}()
	wg.Wait()
}
