package headersCache

// Hand-made reproduction of F29 (property C29): headersPool.Nonces takes only the READ lock, but headersCache.keys ->
// getShardMap inserts an empty per-shard map for a shard never seen before: a map write under RLock, racing with every
// other read-locked call (Nonces, GetNumHeaders, Len).
// Run: cd $WT && go test -race -overlay <ov.json> -vet=off -run TestVerifF29 ./dataRetriever/dataPool/headersCache/

import (
	"sync"
	"testing"

	"github.com/ElrondNetwork/elrond-go/config"
)

func TestVerifF29_NoncesOfUnseenShards(t *testing.T) {
	pool, err := NewHeadersPool(config.HeadersPoolConfig{MaxHeadersPerShard: 100, NumElementsToRemoveOnEviction: 1})
	if err != nil {
		t.Fatal(err)
	}
	var wg sync.WaitGroup
	for g := 0; g < 4; g++ {
		wg.Add(1)
		go func(g int) {
			defer wg.Done()
			for i := 0; i < 200; i++ {
				_ = pool.Nonces(uint32(g*1000 + i)) // shards never seen before
			}
		}(g)
	}
	wg.Wait()
}
