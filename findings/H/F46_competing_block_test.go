package dblookupext

// Hand-made reproduction of F46 (property C46): the deduplication key of recordMiniblock is (epoch, miniblock hash) and
// omits the block header hash. The same miniblock recorded in a competing block of the SAME epoch (the first block was
// dropped) is skipped, so the lookup keeps reporting the dropped block.
// Run: cd $WT && go test -overlay <ov.json> -vet=off -run TestVerifF46 ./core/dblookupext/

import (
	"testing"

	"github.com/ElrondNetwork/elrond-go/data/block"
)

func TestVerifF46_CompetingBlockSameEpoch(t *testing.T) {
	repo, err := NewHistoryRepository(createMockHistoryRepoArgs(7))
	if err != nil {
		t.Fatal(err)
	}
	mb := &block.MiniBlock{SenderShardID: 0, ReceiverShardID: 0, TxHashes: [][]byte{[]byte("tx1")}}
	body := &block.Body{MiniBlocks: []*block.MiniBlock{mb}}

	// block A (nonce 10, epoch 7) is committed, then dropped; block B (same nonce, same epoch) is the canonical one
	if err = repo.RecordBlock([]byte("hashOfDroppedBlockA"), &block.Header{Epoch: 7, Nonce: 10, Round: 100}, body, nil, nil); err != nil {
		t.Fatal(err)
	}
	if err = repo.RecordBlock([]byte("hashOfCanonicalBlockB"), &block.Header{Epoch: 7, Nonce: 10, Round: 101}, body, nil, nil); err != nil {
		t.Fatal(err)
	}

	md, err := repo.GetMiniblockMetadataByTxHash([]byte("tx1"))
	if err != nil {
		t.Fatal(err)
	}
	t.Logf("lookup of tx1 reports header hash %q round %d", md.HeaderHash, md.Round)
	if string(md.HeaderHash) != "hashOfCanonicalBlockB" {
		t.Fatalf("C46 violated: lookup reports block %q, the most recently committed block containing the miniblock is %q",
			md.HeaderHash, "hashOfCanonicalBlockB")
	}
}

// Variant: the stale deduplication entry also keeps a stale EPOCH index. M recorded in epoch 7 (block A), then in a block B
// of epoch 8 that is later dropped, then in the canonical block C of epoch 7: the third record is skipped (key (7, M) is
// cached), the epoch index of M still says 8 and the lookup reports the dropped block B.
func TestVerifF46_StaleEpochIndex(t *testing.T) {
	args := createMockHistoryRepoArgs(7)
	repo, err := NewHistoryRepository(args)
	if err != nil {
		t.Fatal(err)
	}
	mb := &block.MiniBlock{SenderShardID: 0, ReceiverShardID: 0, TxHashes: [][]byte{[]byte("tx1")}}
	body := &block.Body{MiniBlocks: []*block.MiniBlock{mb}}
	_ = repo.RecordBlock([]byte("blockA_epoch7"), &block.Header{Epoch: 7, Nonce: 10}, body, nil, nil)
	_ = repo.RecordBlock([]byte("blockB_epoch8_dropped"), &block.Header{Epoch: 8, Nonce: 11}, body, nil, nil)
	_ = repo.RecordBlock([]byte("blockC_epoch7_canonical"), &block.Header{Epoch: 7, Nonce: 11}, body, nil, nil)

	md, err := repo.GetMiniblockMetadataByTxHash([]byte("tx1"))
	if err != nil {
		t.Logf("lookup error: %v", err)
		t.Fatalf("C46 violated: lookup fails after the canonical record")
	}
	t.Logf("lookup of tx1 reports header hash %q epoch %d", md.HeaderHash, md.Epoch)
	if string(md.HeaderHash) != "blockC_epoch7_canonical" {
		t.Fatalf("C46 violated: lookup reports block %q (epoch %d)", md.HeaderHash, md.Epoch)
	}
}
