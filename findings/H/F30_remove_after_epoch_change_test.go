package pruning_test

// Hand-made reproduction of F30 (property C30): PruningStorer.Remove returns after the first active persister whose
// Remove returns nil — the newest one, even when the key lives in an older active persister — so a read after a cache
// miss finds the removed key again.
// Run: cd $WT && go test -overlay <ov.json> -vet=off -run TestVerifF30 ./storage/pruning/

import (
	"testing"

	"github.com/ElrondNetwork/elrond-go/storage/pruning"
)

func TestVerifF30_RemoveAfterEpochChange(t *testing.T) {
	args := getDefaultArgs() // 2 active persisters, in-memory persisters
	ps, err := pruning.NewPruningStorer(args)
	if err != nil {
		t.Fatal(err)
	}
	key, val := []byte("key"), []byte("value")
	if err = ps.Put(key, val); err != nil { // stored in the persister of epoch 0
		t.Fatal(err)
	}
	if err = ps.ChangeEpochSimple(1); err != nil { // epoch 0 stays active (2 active persisters)
		t.Fatal(err)
	}
	t.Logf("active epochs: %v", ps.GetActivePersistersEpochs())

	if err = ps.Remove(key); err != nil {
		t.Fatalf("remove: %v", err)
	}
	ps.ClearCache()

	got, err := ps.Get(key)
	if err == nil {
		t.Fatalf("C30 violated: Remove(key) returned nil, yet Get(key) still returns %q from an active epoch", got)
	}
	if ps.Has(key) == nil {
		t.Fatalf("C30 violated: Has(key) == nil after Remove")
	}
}
