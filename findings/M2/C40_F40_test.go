package systemSmartContracts

// Hand-made reproduction of finding F40 (property C40): a nested system contract call that writes storage and then FAILS
// leaves its writes in the caller's pending storage (copyToNewContext shares the storageUpdate map with the snapshot, the
// failure branch of ExecuteOnDestContext only replaces outputAccounts). Runs the real vmContext; nothing is written to the
// repository:
//   cd $WT && go test -overlay $VF/repro/C40_F40.overlay.json -vet=off -count=1 -run 'TestC40_' ./vm/systemSmartContracts/

import (
	"math/big"
	"testing"

	"github.com/ElrondNetwork/elrond-go/process/smartContract/hooks"
	"github.com/ElrondNetwork/elrond-go/testscommon"
	"github.com/ElrondNetwork/elrond-go/vm"
	"github.com/ElrondNetwork/elrond-go/vm/mock"
	vmcommon "github.com/ElrondNetwork/elrond-vm-common"
)

func c40context(t *testing.T, inner func(eei *vmContext, args *vmcommon.ContractCallInput) vmcommon.ReturnCode) *vmContext {
	eei, err := NewVMContext(&mock.BlockChainHookStub{}, hooks.NewVMCryptoHook(), &mock.ArgumentParserMock{},
		&testscommon.AccountsStub{}, &mock.RaterMock{})
	if err != nil {
		t.Fatal(err)
	}
	_ = eei.SetSystemSCContainer(&mock.SystemSCContainerStub{GetCalled: func(key []byte) (vm.SystemSmartContract, error) {
		return &mock.SystemSCStub{ExecuteCalled: func(args *vmcommon.ContractCallInput) vmcommon.ReturnCode {
			return inner(eei, args)
		}}, nil
	}})
	return eei
}

// the callee overwrites a key it owns and writes a new one, then fails: both writes stay visible to the caller
func TestC40_F40_FailedNestedCallKeepsItsStorageWrites(t *testing.T) {
	callee := []byte("calleeSC")
	caller := []byte("callerSC")
	eei := c40context(t, func(eei *vmContext, _ *vmcommon.ContractCallInput) vmcommon.ReturnCode {
		eei.SetStorage([]byte("existing"), []byte("written-by-failed-call"))
		eei.SetStorage([]byte("new"), []byte("written-by-failed-call"))
		return vmcommon.UserError
	})
	eei.SetSCAddress(caller)
	eei.SetStorageForAddress(callee, []byte("existing"), []byte("before"))

	out, err := eei.ExecuteOnDestContext(callee, caller, big.NewInt(0), []byte("f"))
	if err != nil || out.ReturnCode != vmcommon.UserError {
		t.Fatalf("setup: the nested call is expected to fail with UserError, got %v %v", out, err)
	}
	got := string(eei.GetStorageFromAddress(callee, []byte("existing")))
	gotNew := string(eei.GetStorageFromAddress(callee, []byte("new")))
	t.Logf("after the failed call: existing=%q new=%q", got, gotNew)
	if got != "before" {
		t.Errorf("F40: overwritten key reads %q after the failed nested call, want %q", got, "before")
	}
	if gotNew != "" {
		t.Errorf("F40: key created by the failed nested call reads %q, want empty", gotNew)
	}
	// and it reaches the transaction's output
	vmOut := eei.CreateVMOutput()
	if acc := vmOut.OutputAccounts[string(callee)]; acc != nil {
		if su := acc.StorageUpdates["new"]; su != nil {
			t.Errorf("F40: VM output of the transaction contains the failed call's write new=%q", su.Data)
		}
	}
}

// the value moved to the callee before its execution stays moved although the call failed
func TestC40_F40_FailedNestedCallKeepsTheValueTransfer(t *testing.T) {
	callee := []byte("calleeSC")
	caller := []byte("callerSC")
	eei := c40context(t, func(eei *vmContext, _ *vmcommon.ContractCallInput) vmcommon.ReturnCode {
		return vmcommon.UserError
	})
	eei.SetSCAddress(caller)
	out, err := eei.ExecuteOnDestContext(callee, caller, big.NewInt(100), []byte("f"))
	if err != nil || out.ReturnCode != vmcommon.UserError {
		t.Fatalf("setup: %v %v", out, err)
	}
	vmOut := eei.CreateVMOutput()
	acc := vmOut.OutputAccounts[string(callee)]
	if acc != nil && acc.BalanceDelta != nil && acc.BalanceDelta.Sign() != 0 {
		t.Errorf("F40: callee balance delta is %v after the failed call, want 0", acc.BalanceDelta)
	}
}
