package systemSmartContracts

// Hand-made reproduction of finding F39 (property C39): insertAfterLastJailed, branch len(LastJailedKey) == 0, makes the new key
// the head of the waiting list but leaves the former head with PreviousKey == its own key (the "I am first" marker). A later
// removeFromWaitingList of that key takes the "remove the first element" branch and re-points FirstKey past the inserted key,
// which becomes unreachable although Length still counts it. Real stakingSC on the real vmContext; nothing is written to the
// repository:
//   cd $WT && go test -overlay $VF/repro/C39_F39.overlay.json -vet=off -count=1 -run 'TestC39_' ./vm/systemSmartContracts/

import (
	"bytes"
	"math/big"
	"testing"

	"github.com/ElrondNetwork/elrond-go/process/smartContract/hooks"
	"github.com/ElrondNetwork/elrond-go/testscommon"
	"github.com/ElrondNetwork/elrond-go/vm/mock"
	vmcommon "github.com/ElrondNetwork/elrond-vm-common"
)

// walks the stored list from FirstKey along NextKey; returns the keys and the first broken link (if any)
func c39walk(t *testing.T, sc *stakingSC) (keys []string, broken string) {
	head, err := sc.getWaitingListHead()
	if err != nil {
		t.Fatal(err)
	}
	cur := head.FirstKey
	prev := head.FirstKey
	for i := 0; len(cur) > 0 && i < 100; i++ {
		el, errGet := sc.getWaitingListElement(cur)
		if errGet != nil {
			return keys, "element " + string(cur) + " missing"
		}
		keys = append(keys, string(cur))
		if !bytes.Equal(el.PreviousKey, prev) && broken == "" {
			broken = "PreviousKey of " + string(cur) + " is " + string(el.PreviousKey) + ", want " + string(prev)
		}
		prev = cur
		cur = el.NextKey
	}
	if broken == "" && int(head.Length) != len(keys) {
		broken = "Length does not match the number of reachable elements"
	}
	if broken == "" && len(keys) > 0 && keys[len(keys)-1] != string(head.LastKey) {
		broken = "LastKey is not the last reachable element"
	}
	return keys, broken
}

func TestC39_F39_UnJailedKeyInsertedAtFrontBreaksTheQueue(t *testing.T) {
	blockChainHook := &mock.BlockChainHookStub{}
	blockChainHook.GetStorageDataCalled = func(accountsAddress []byte, index []byte) ([]byte, error) { return nil, nil }
	eei, _ := NewVMContext(blockChainHook, hooks.NewVMCryptoHook(), &mock.ArgumentParserMock{}, &testscommon.AccountsStub{}, &mock.RaterMock{})
	eei.SetSCAddress([]byte("addr"))

	access := []byte("stakingAccessAddress")
	args := createMockStakingScArguments()
	args.StakingAccessAddr = access
	args.StakingSCConfig.MinStakeValue = big.NewInt(100).Text(10)
	args.StakingSCConfig.MaxNumberOfNodesForStake = 1
	args.EpochConfig.EnableEpochs.StakingV2EnableEpoch = 0
	args.Eei = eei
	sc, _ := NewStakingSmartContract(args)
	staker := []byte("stakerAddr")

	doStake(t, sc, access, staker, []byte("keyA")) // staked (maximum 1 node)
	doStake(t, sc, access, staker, []byte("keyB")) // queue: B
	doStake(t, sc, access, staker, []byte("keyC")) // queue: B C
	doSwitchJailedWithWaiting(t, sc, []byte("keyA")) // A jailed, B takes its place; queue: C
	doStake(t, sc, access, staker, []byte("keyD")) // queue: C D, no jailed key in the queue
	keys, broken := c39walk(t, sc)
	t.Logf("before unJail: %v %s", keys, broken)
	if broken != "" || len(keys) != 2 {
		t.Fatalf("setup: queue C D expected, got %v (%s)", keys, broken)
	}

	doUnJail(t, sc, access, []byte("keyA"), vmcommon.Ok) // first unJail: inserted after the last jailed key = at the front
	head, _ := sc.getWaitingListHead()
	keys, broken = c39walk(t, sc)
	t.Logf("after unJail(A): first=%s last=%s length=%d lastJailed=%s reachable=%v %s", head.FirstKey, head.LastKey, head.Length, head.LastJailedKey, keys, broken)
	if broken != "" {
		t.Errorf("F39 (insertAfterLastJailed): %s", broken)
	}

	// the former head leaves the queue
	doUnStake(t, sc, access, staker, []byte("keyC"), vmcommon.Ok)
	head, _ = sc.getWaitingListHead()
	keys, broken = c39walk(t, sc)
	t.Logf("after unStake(C): first=%s last=%s length=%d lastJailed=%s reachable=%v %s", head.FirstKey, head.LastKey, head.Length, head.LastJailedKey, keys, broken)
	if int(head.Length) != len(keys) {
		t.Errorf("F39 (removeFromWaitingList after it): Length is %d but %d element(s) are reachable from FirstKey %s; w_keyA is lost", head.Length, len(keys), head.FirstKey)
	}
	if el, err := sc.getWaitingListElement([]byte("w_keyA")); err == nil && el != nil {
		found := false
		for _, k := range keys {
			found = found || k == "w_keyA"
		}
		if !found {
			t.Errorf("F39: element w_keyA is stored and marked waiting but not reachable from the head")
		}
	}
	doGetWaitingListSize(t, sc, eei, len(keys))
}
