package systemSmartContracts

// Hand-made reproduction of finding F38 (property C38): delegation.withdraw, branch totalUnBonded > actualUserUnBond (the
// validator contract reports that it un-bonded LESS than requested): (a) the partially consumed fund is saved with the
// withdrawn part instead of the remainder, (b) the loop breaks without keeping that fund and the later ones in
// delegator.UnStakedFunds, so GlobalFundData.TotalUnStaked no longer equals the sum of the delegators' un-staked funds and the
// delegator (here even deleted as "without funds") can never withdraw the rest. The validator contract is a stub that returns
// the un-bonded amount as return data (the validator contract of this revision returns no data, which withdraw reads as "all
// un-bonded"; the branch is what withdraw does once a validator reports amounts). Real delegation contract on the real
// vmContext; nothing is written to the repository:
//   cd $WT && go test -overlay $VF/repro/C38_F38.overlay.json -vet=off -count=1 -run 'TestC38_' ./vm/systemSmartContracts/

import (
	"bytes"
	"math/big"
	"testing"

	"github.com/ElrondNetwork/elrond-go/process/smartContract/hooks"
	"github.com/ElrondNetwork/elrond-go/testscommon"
	"github.com/ElrondNetwork/elrond-go/vm"
	"github.com/ElrondNetwork/elrond-go/vm/mock"
	vmcommon "github.com/ElrondNetwork/elrond-vm-common"
	"github.com/ElrondNetwork/elrond-vm-common/parsers"
)

func TestC38_F38_PartialUnBondLosesTheRemainingFunds(t *testing.T) {
	epoch := uint32(60)
	args := createMockArgumentsForDelegation()
	eei, _ := NewVMContext(&mock.BlockChainHookStub{CurrentEpochCalled: func() uint32 { return epoch }}, hooks.NewVMCryptoHook(),
		&mock.ArgumentParserMock{}, &testscommon.AccountsStub{}, &mock.RaterMock{})
	eei.inputParser = parsers.NewCallArgsParser()
	args.Eei = eei

	granted := big.NewInt(90) // the validator contract un-bonds 90 of the requested 180
	_ = eei.SetSystemSCContainer(&mock.SystemSCContainerStub{GetCalled: func(key []byte) (vm.SystemSmartContract, error) {
		if !bytes.Equal(key, vm.ValidatorSCAddress) {
			return nil, vm.ErrUnknownSystemSmartContract
		}
		return &mock.SystemSCStub{ExecuteCalled: func(in *vmcommon.ContractCallInput) vmcommon.ReturnCode {
			if in.Function != "unBondTokens" {
				return vmcommon.UserError
			}
			eei.Finish(granted.Bytes())
			return vmcommon.Ok
		}}, nil
	}})

	vmInput := getDefaultVmInputForFunc("withdraw", [][]byte{})
	d, _ := NewDelegationSystemSC(args)
	eei.SetSCAddress(vmInput.RecipientAddr)
	k1, k2, k3 := []byte{1}, []byte{2}, []byte{3}
	_ = d.saveDelegatorData(vmInput.CallerAddr, &DelegatorData{UnStakedFunds: [][]byte{k1, k2, k3},
		UnClaimedRewards: big.NewInt(0), TotalCumulatedRewards: big.NewInt(0)})
	for i, v := range []int64{60, 80, 40} {
		_ = d.saveFund([]byte{byte(i + 1)}, &Fund{Value: big.NewInt(v), Address: vmInput.CallerAddr, Epoch: 5, Type: unStaked})
	}
	_ = d.saveDelegationContractConfig(&DelegationConfig{UnBondPeriodInEpochs: 50})
	_ = d.saveGlobalFundData(&GlobalFundData{TotalUnStaked: big.NewInt(180), TotalActive: big.NewInt(0)})
	_ = d.saveDelegationStatus(&DelegationContractStatus{NumUsers: 2})

	if rc := d.Execute(vmInput); rc != vmcommon.Ok {
		t.Fatalf("withdraw returned %v (%s)", rc, eei.returnMessage)
	}

	global, _ := d.getGlobalFundData()
	isNew, delegator, _ := d.getOrCreateDelegatorData(vmInput.CallerAddr)
	sum := big.NewInt(0)
	for _, k := range delegator.UnStakedFunds {
		if f, err := d.getFund(k); err == nil {
			sum.Add(sum, f.Value)
		}
	}
	f2, _ := d.getFund(k2)
	f3, _ := d.getFund(k3)
	t.Logf("requested 180, granted %v: TotalUnStaked=%v, delegator deleted=%v, its UnStakedFunds=%v (sum %v), fund2=%v fund3=%v",
		granted, global.TotalUnStaked, isNew, delegator.UnStakedFunds, sum, f2, f3)

	if global.TotalUnStaked.Cmp(sum) != 0 {
		t.Errorf("F38: TotalUnStaked is %v but the delegator's un-staked funds sum to %v", global.TotalUnStaked, sum)
	}
	if f2 == nil || f2.Value.Cmp(big.NewInt(50)) != 0 {
		t.Errorf("F38(a): 30 of fund 2 (value 80) were withdrawn, the stored remainder is %v, want 50", f2)
	}
	if len(delegator.UnStakedFunds) != 2 {
		t.Errorf("F38(b): delegator references %d un-staked funds after the partial withdrawal, want 2 (the rest of fund 2, fund 3)", len(delegator.UnStakedFunds))
	}
	if isNew {
		t.Errorf("F38(b): the delegator record was deleted as 'without funds' although 90 of its tokens are still un-staked")
	}
}

// F38(c): the amount reported by the validator contract is not bounded by the requested one: more is paid out than was un-delegated
func TestC38_F38_ReportedAmountAboveRequestIsPaidOut(t *testing.T) {
	epoch := uint32(60)
	args := createMockArgumentsForDelegation()
	eei, _ := NewVMContext(&mock.BlockChainHookStub{CurrentEpochCalled: func() uint32 { return epoch }}, hooks.NewVMCryptoHook(),
		&mock.ArgumentParserMock{}, &testscommon.AccountsStub{}, &mock.RaterMock{})
	eei.inputParser = parsers.NewCallArgsParser()
	args.Eei = eei
	granted := big.NewInt(500) // requested: 100
	_ = eei.SetSystemSCContainer(&mock.SystemSCContainerStub{GetCalled: func(key []byte) (vm.SystemSmartContract, error) {
		return &mock.SystemSCStub{ExecuteCalled: func(in *vmcommon.ContractCallInput) vmcommon.ReturnCode {
			eei.Finish(granted.Bytes())
			return vmcommon.Ok
		}}, nil
	}})
	vmInput := getDefaultVmInputForFunc("withdraw", [][]byte{})
	d, _ := NewDelegationSystemSC(args)
	eei.SetSCAddress(vmInput.RecipientAddr)
	_ = d.saveDelegatorData(vmInput.CallerAddr, &DelegatorData{UnStakedFunds: [][]byte{{1}}, UnClaimedRewards: big.NewInt(0), TotalCumulatedRewards: big.NewInt(0)})
	_ = d.saveFund([]byte{1}, &Fund{Value: big.NewInt(100), Address: vmInput.CallerAddr, Epoch: 5, Type: unStaked})
	_ = d.saveDelegationContractConfig(&DelegationConfig{UnBondPeriodInEpochs: 50})
	_ = d.saveGlobalFundData(&GlobalFundData{TotalUnStaked: big.NewInt(100), TotalActive: big.NewInt(0)})
	_ = d.saveDelegationStatus(&DelegationContractStatus{NumUsers: 2})

	if rc := d.Execute(vmInput); rc != vmcommon.Ok {
		t.Fatalf("withdraw returned %v (%s)", rc, eei.returnMessage)
	}
	global, _ := d.getGlobalFundData()
	paid := big.NewInt(0)
	if acc := eei.outputAccounts[string(vmInput.CallerAddr)]; acc != nil {
		paid = acc.BalanceDelta
	}
	t.Logf("un-delegated 100, validator reports 500: paid out %v, TotalUnStaked=%v", paid, global.TotalUnStaked)
	if paid.Cmp(big.NewInt(100)) > 0 {
		t.Errorf("F38(c): %v paid out for 100 un-delegated", paid)
	}
	if global.TotalUnStaked.Sign() < 0 {
		t.Errorf("F38(c): TotalUnStaked is negative: %v", global.TotalUnStaked)
	}
}
