package state_test

// F09 (C09, second sentence: "nodes belonging only to pruned roots are removed once pruning is unblocked").
// A block is rolled back WHILE a snapshot blocks pruning: storagePruningManager.CancelPrune(parentRoot, OldRoot) is buffered.
// After the snapshot a new block is committed on the same parent: MarkForEviction records the new OldRoot list under the SAME key
// (parentRoot ++ OldRoot). At its finalisation PruneTrie first replays the buffer: the stale cancel evicts the NEW list, the prune
// that follows finds nothing, and the nodes the parent root alone needed are never deleted (control run without the snapshot: deleted).
// Run: go test -overlay (file placed in data/state) -run TestF09

import (
	"math/big"
	"testing"

	"github.com/ElrondNetwork/elrond-go/data"
	"github.com/ElrondNetwork/elrond-go/data/state"
	"github.com/ElrondNetwork/elrond-go/data/trie/hashesHolder"
	"github.com/ElrondNetwork/elrond-go/testscommon"
)

func f09Run(t *testing.T, snapshotDuringRollback bool) bool {
	adb, _, tsm := getDefaultStateComponents(hashesHolder.NewCheckpointHashesHolder(10000000, testscommon.HashSize))
	addr := make([]byte, 32)
	addr[0] = 1
	credit := func(v int64) {
		acc, _ := adb.LoadAccount(addr)
		_ = acc.(state.UserAccountHandler).AddToBalance(big.NewInt(v))
		_ = adb.SaveAccount(acc)
	}
	credit(1)
	parent, _ := adb.Commit() // block N (final)
	credit(1)
	rolledBack, _ := adb.Commit() // block N+1
	if snapshotDuringRollback {
		tsm.EnterPruningBufferingMode() // a snapshot / checkpoint / GetAllLeaves traversal is running
	}
	_ = adb.RecreateTrie(parent) // PruneStateOnRollback
	adb.CancelPrune(parent, data.OldRoot)
	adb.PruneTrie(rolledBack, data.NewRoot)
	if snapshotDuringRollback {
		tsm.ExitPruningBufferingMode()
	}
	credit(5)
	next, _ := adb.Commit() // block N+1'
	adb.CancelPrune(parent, data.NewRoot) // updateStateStorage: block N+1' is final, the parent root is pruned
	adb.PruneTrie(parent, data.OldRoot)
	if _, err := tsm.Database().Get(next); err != nil {
		t.Fatalf("current root lost: %v", err)
	}
	_, err := tsm.Database().Get(parent)
	return err != nil // true = the parent's root node was deleted
}

func TestF09_control_without_snapshot(t *testing.T) {
	if !f09Run(t, false) {
		t.Fatal("control: parent root not pruned")
	}
}

func TestF09_stale_buffered_cancel_keeps_garbage(t *testing.T) {
	if !f09Run(t, true) {
		t.Fatal("F09: the pruned parent root is still in the database: its obsolete nodes are never deleted")
	}
}
