package trie_test

// Hand-made reproduction of finding F04 (property C04) on the real code, public API only.
// Run (nothing is written to the repository):
//   cd $WT && TMPDIR=$VF/tmp go test -overlay $VF/repro/C04_F04.overlay.json -vet=off -run 'TestF04' -v ./data/trie/

import (
	"fmt"
	"testing"
)

// keys share their last three bytes: the reversed-nibble hex keys share a 6-nibble prefix, so the root is an
// extension node with a 6-nibble key segment followed by a branch
func f04Trie() (present []byte, proof [][]byte, verify func(key []byte, proof [][]byte) (bool, error)) {
	tr := emptyTrie()
	_ = tr.Update([]byte{0x11, 0xaa, 0xbb, 0xcc}, []byte("v1"))
	_ = tr.Update([]byte{0x22, 0xaa, 0xbb, 0xcc}, []byte("v2"))
	present = []byte{0x11, 0xaa, 0xbb, 0xcc}
	proof, _ = tr.GetProof(present)
	return present, proof, tr.VerifyProof
}

// extensionNode.getNextHashAndKey#post:sound — the extension's key segment is never compared with the key:
// the proof of the present key 11aabbcc verifies for the ABSENT key 11aabbcd (differs inside the segment)
func TestF04_ProofVerifiesForAbsentKey(t *testing.T) {
	present, proof, verify := f04Trie()
	ok, err := verify(present, proof)
	fmt.Printf("F04 present key %x: ok=%v err=%v (proof of %d nodes)\n", present, ok, err, len(proof))
	absent := []byte{0x11, 0xaa, 0xbb, 0xcd}
	tr := emptyTrie()
	_ = tr.Update([]byte{0x11, 0xaa, 0xbb, 0xcc}, []byte("v1"))
	_ = tr.Update([]byte{0x22, 0xaa, 0xbb, 0xcc}, []byte("v2"))
	val, _ := tr.Get(absent)
	ok, err = verify(absent, proof)
	fmt.Printf("F04 absent key %x: Get=%q VerifyProof ok=%v err=%v\n", absent, val, ok, err)
	if ok {
		fmt.Println("F04-REPRODUCED soundness: VerifyProof accepted a key that is not in the trie")
	}
}

// extensionNode.getNextHashAndKey#bounds — key[len(en.Key):] with a key shorter than the segment panics
func TestF04_ShortKeyPanics(t *testing.T) {
	_, proof, verify := f04Trie()
	defer func() {
		if r := recover(); r != nil {
			fmt.Printf("F04-REPRODUCED crash: VerifyProof([]byte{0x01}, proof) panicked: %v\n", r)
		}
	}()
	ok, err := verify([]byte{0x01}, proof)
	fmt.Printf("F04 short key: ok=%v err=%v\n", ok, err)
}
