package capacity

import "testing"

// F28a: AddSized documents "Returns true if an eviction occurred", but an update of an existing key that grows the
// entry evicts inside update()->adjustSize()->evictIfNeeded() and the result of that eviction is dropped.
func TestC28_AddSizedUpdateEvictsButReportsFalse(t *testing.T) {
	c, _ := NewCapacityLRU(10, 100)
	c.AddSized("a", "va", 40)
	c.AddSized("b", "vb", 40)
	evicted := c.AddSized("b", "vb2", 90) // 40+90 > 100: "a" is evicted
	if c.Contains("a") {
		t.Fatal("expected a to be evicted")
	}
	if !evicted {
		t.Logf("RAC-FAIL reports-eviction-on-update: key a was evicted (len=%d, bytes=%d) but AddSized returned false", c.Len(), c.SizeInBytesContained())
		t.Fail()
	}
}

// F28b: AddSizedAndReturnEvicted does not return the pairs evicted by the update path; storageCacherAdapter.Put
// persists only the returned pairs, so the evicted value is lost.
func TestC28_AddSizedAndReturnEvictedMissesUpdateEvictions(t *testing.T) {
	c, _ := NewCapacityLRU(10, 100)
	c.AddSized("a", "va", 40)
	c.AddSized("b", "vb", 40)
	ev := c.AddSizedAndReturnEvicted("b", "vb2", 90)
	if c.Contains("a") {
		t.Fatal("expected a to be evicted")
	}
	if _, ok := ev["a"]; !ok {
		t.Logf("RAC-FAIL returns-all-evicted-on-update: key a was evicted but the returned map is %v", ev)
		t.Fail()
	}
}
