package systemSmartContracts

import (
	"testing"

	"github.com/ElrondNetwork/elrond-go/vm"
	"github.com/ElrondNetwork/elrond-go/vm/mock"
)

// Hand-made reproduction for finding F41 (property C41), obligation esdt.createNewTokenIdentifier#post:six-hex-digits@2:
// the 3-byte random value is ff ff ff and the first candidate TICK-ffffff is taken; the retry adds 1 and formats
// 0x1000000 with "%06x" -> seven hex digits.
// Run: cd $WT && go test -overlay ov41.json -vet=off -run TestF41 ./vm/systemSmartContracts/
func TestF41_SevenHexDigitsAfterCollision(t *testing.T) {
	stored := map[string][]byte{"TICK-ffffff": []byte("token issued earlier")}
	e := &esdt{
		eei: &mock.SystemEIStub{
			BlockChainHookCalled: func() vm.BlockchainHook {
				return &mock.BlockChainHookStub{CurrentRandomSeedCalled: func() []byte { return []byte("seed") }}
			},
			GetStorageCalled: func(key []byte) []byte { return stored[string(key)] },
		},
		hasher: &mock.HasherStub{ComputeCalled: func(s string) []byte {
			return []byte{0xff, 0xff, 0xff, 0x00, 0x01, 0x02, 0x03, 0x04}
		}},
	}
	id, err := e.createNewTokenIdentifier([]byte("owner"), []byte("TICK"))
	if err != nil {
		t.Fatalf("unexpected error %v", err)
	}
	if len(id) != len("TICK")+1+6 {
		t.Errorf("identifier %q has %d characters after the separator, expected 6", id, len(id)-len("TICK")-1)
	}
}
