package state

import (
	"bytes"
	"testing"
)

// Hand-made reproductions for finding F08 (property C08): TrackableDataTrie.SaveKeyValue appends into the callers' buffers.
// Run: cd $WT && go test -overlay ov.json -vet=off -run TestF08 ./data/state/   (ov.json maps data/state/zz_F08_test.go to this file)

// obligation SaveKeyValue#frame:append:key — the caller's key buffer is written beyond len(key)
func TestF08_KeyBufferOverwritten(t *testing.T) {
	tdt := NewTrackableDataTrie([]byte("ID"), nil)
	buf := []byte("kkNEXTFIELD")
	key := buf[:2] // cap(key) == 11
	_ = tdt.SaveKeyValue(key, []byte("v"))
	if !bytes.Equal(buf, []byte("kkNEXTFIELD")) {
		t.Errorf("caller's buffer behind key changed: %q", buf)
	}
}

// obligation SaveKeyValue#post:stored-value — key and value cut from one buffer: the stored value is not the value passed in
func TestF08_StoredValueCorrupted(t *testing.T) {
	tdt := NewTrackableDataTrie([]byte("ID"), nil)
	buf := []byte("kkvvvv")
	key, value := buf[:2], buf[2:6]
	_ = tdt.SaveKeyValue(key, value)
	got, err := tdt.RetrieveValue([]byte("kk"))
	if err != nil || !bytes.Equal(got, []byte("vvvv")) {
		t.Errorf("read back %q, %v; written \"vvvv\"", got, err)
	}
}

// obligations SaveKeyValue#frame:append:value and #post:fresh — the stored slice aliases the caller's value buffer:
// a second save from the same buffer rewrites the first entry
func TestF08_TwoSavesShareOneBuffer(t *testing.T) {
	tdt := NewTrackableDataTrie([]byte("ID"), nil)
	buf := make([]byte, 0, 64)
	v1 := append(buf, "one"...)
	_ = tdt.SaveKeyValue([]byte("k1"), v1)
	v2 := append(buf, "two"...) // the caller reuses its scratch buffer
	_ = tdt.SaveKeyValue([]byte("k2"), v2)
	got, err := tdt.RetrieveValue([]byte("k1"))
	if err != nil || !bytes.Equal(got, []byte("one")) {
		t.Errorf("k1 reads back %q, %v; written \"one\"", got, err)
	}
	raw := tdt.DirtyData()["k1"]
	if !bytes.Equal(raw, []byte("onek1ID")) {
		t.Errorf("entry of k1 is %q, expected \"onek1ID\"", raw)
	}
}

// obligation RetrieveValue#post:dirty-read-short-entry-no-error — a key deleted in the dirty layer reads back with an error
func TestF08_DeletedKeyReadsWithError(t *testing.T) {
	tdt := NewTrackableDataTrie([]byte("ID"), nil)
	_ = tdt.SaveKeyValue([]byte("k1"), []byte("one"))
	_ = tdt.SaveKeyValue([]byte("k1"), nil) // delete
	got, err := tdt.RetrieveValue([]byte("k1"))
	if err != nil || len(got) != 0 {
		t.Errorf("deleted key reads back %q, %v; expected empty, nil", got, err)
	}
}
