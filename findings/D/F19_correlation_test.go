package block

// Reproduction of finding F19 (property C19) on the real checkHeaderBodyCorrelation, real marshalizer and hasher.
// Run (nothing is written to the repository):
//   cd $WT && go test -overlay $VF/repro/F19.overlay.json -vet=off -run TestF19 ./process/block/

import (
	"testing"

	"github.com/ElrondNetwork/elrond-go/core"
	"github.com/ElrondNetwork/elrond-go/data/block"
	"github.com/ElrondNetwork/elrond-go/hashing/sha256"
	"github.com/ElrondNetwork/elrond-go/marshal"
)

func f19Processor() *baseProcessor {
	return &baseProcessor{marshalizer: &marshal.GogoProtoMarshalizer{}, hasher: sha256.NewSha256()}
}

func f19Entry(t *testing.T, bp *baseProcessor, mb *block.MiniBlock) block.MiniBlockHeader {
	h, err := core.CalculateHash(bp.marshalizer, bp.hasher, mb)
	if err != nil {
		t.Fatal(err)
	}
	return block.MiniBlockHeader{Hash: h, SenderShardID: mb.SenderShardID, ReceiverShardID: mb.ReceiverShardID, TxCount: uint32(len(mb.TxHashes)), Type: mb.Type}
}

// header lists {A, B}; body carries {A, A}: B is missing, A is duplicated - accepted.
func TestF19_DuplicatedMiniBlockMatchesTwoDifferentHeaderEntries(t *testing.T) {
	bp := f19Processor()
	a := &block.MiniBlock{TxHashes: [][]byte{[]byte("tx-a")}, SenderShardID: 0, ReceiverShardID: 1}
	b := &block.MiniBlock{TxHashes: [][]byte{[]byte("tx-b")}, SenderShardID: 0, ReceiverShardID: 1}
	hdrs := []block.MiniBlockHeader{f19Entry(t, bp, a), f19Entry(t, bp, b)}
	body := &block.Body{MiniBlocks: []*block.MiniBlock{a, a}}
	err := bp.checkHeaderBodyCorrelation(hdrs, body)
	if err == nil {
		t.Fatalf("C19 violated (injective): body {A,A} accepted for header {A,B}; header entry B (hash %x) is matched by no body miniblock", hdrs[1].Hash)
	}
}

// header entry says SmartContractResultBlock, the body miniblock with that hash is a TxBlock - accepted.
func TestF19_HeaderEntryTypeIsNotCompared(t *testing.T) {
	bp := f19Processor()
	a := &block.MiniBlock{TxHashes: [][]byte{[]byte("tx-a")}, SenderShardID: 0, ReceiverShardID: 1, Type: block.TxBlock}
	e := f19Entry(t, bp, a)
	e.Type = block.SmartContractResultBlock
	err := bp.checkHeaderBodyCorrelation([]block.MiniBlockHeader{e}, &block.Body{MiniBlocks: []*block.MiniBlock{a}})
	if err == nil {
		t.Fatalf("C19 violated (type): header entry of type %v accepted for a body miniblock of type %v", e.Type, a.Type)
	}
}
