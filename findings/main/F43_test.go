package throttler

// Reproduction of F43 (property C43): check-then-act on the goroutine throttler.
// Two callers follow the pattern used by baseDataInterceptor.preProcessMesage / messageProcessor.canProcessMessage
// (CanProcess, then StartProcessing). The schedule A.CanProcess, B.CanProcess, A.Start, B.Start is issued
// deterministically from one goroutine: with max = 1 both checks pass and the counter ends at 2.

import "testing"

func TestF43_CheckThenActExceedsLimit(t *testing.T) {
	th, _ := NewNumGoRoutinesThrottler(1)
	okA := th.CanProcess()
	okB := th.CanProcess()
	if okA {
		th.StartProcessing()
	}
	if okB {
		th.StartProcessing()
	}
	if th.counter > th.max {
		t.Fatalf("WITNESS-REPRODUCED: %d goroutines admitted with limit %d", th.counter, th.max)
	}
}
