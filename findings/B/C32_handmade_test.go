package partitioning

// Hand-made reproduction for property C32, finding F32 (run with go test -overlay, see C32_handmade.overlay.json):
// SizeDataPacker.PackDataInChunks loses an element. After a flush in the branch "buffer too large with >= 2 elements, the new
// element alone fits" lastMarshalized is reset to an empty buffer although elements == [element]; when the next element
// overflows again, the EMPTY buffer is emitted instead of the marshalled [element].
// This is the execution behind the undischarged obligation SizeDataPacker.PackDataInChunks#inv-keep:loop1:lastMarshalized@2.

import (
	"bytes"
	"errors"
	"testing"

	"github.com/ElrondNetwork/elrond-go/data/batch"
	"github.com/ElrondNetwork/elrond-go/marshal"
	"github.com/ElrondNetwork/elrond-go/testscommon"
)

func TestGovcHandmade_F32_SizeDataPackerLosesElement(t *testing.T) {
	m := &marshal.GogoProtoMarshalizer{}
	sdp, _ := NewSizeDataPacker(m)
	data := [][]byte{bytes.Repeat([]byte{'a'}, 8), bytes.Repeat([]byte{'b'}, 8), bytes.Repeat([]byte{'c'}, 8)}
	limit := 20 // one element marshals to 10 bytes, two elements to 20 bytes

	chunks, err := sdp.PackDataInChunks(data, limit)
	if err != nil {
		t.Fatal(err)
	}
	unpacked := make([][]byte, 0)
	for _, c := range chunks {
		b := &batch.Batch{}
		if err = m.Unmarshal(b, c); err != nil {
			t.Fatal(err)
		}
		unpacked = append(unpacked, b.Data...)
	}
	same := len(unpacked) == len(data)
	for i := 0; same && i < len(data); i++ {
		same = bytes.Equal(unpacked[i], data[i])
	}
	if !same {
		lens := make([]int, 0)
		for _, c := range chunks {
			lens = append(lens, len(c))
		}
		t.Fatalf("GOVC-FINDING F32: %d elements packed, %d unpacked %q; chunk lengths %v", len(data), len(unpacked), unpacked, lens)
	}
}

// F32b: SimpleDataPacker.PackDataInChunks ignores the error of the marshal call inside the loop (`marshaledChunk, _ :=`):
// when the marshalizer fails there, a nil chunk is emitted, the elements of that chunk are lost and no error is returned.
// Execution behind the undischarged obligation SimpleDataPacker.PackDataInChunks#post:no-empty-chunk (the same clause under
// the hypothesis infallible(marshalizer) is proved). Not reachable with GogoProtoMarshalizer, which never fails on *batch.Batch.
func TestGovcHandmade_F32b_SimpleDataPackerSwallowsMarshalError(t *testing.T) {
	real := &marshal.GogoProtoMarshalizer{}
	calls := 0
	m := &testscommon.MarshalizerStub{
		MarshalCalled: func(obj interface{}) ([]byte, error) {
			calls++
			if calls == 1 {
				return nil, errors.New("marshal failed")
			}
			return real.Marshal(obj)
		},
	}
	sdp, _ := NewSimpleDataPacker(m)
	data := [][]byte{bytes.Repeat([]byte{'a'}, 8), bytes.Repeat([]byte{'b'}, 8), bytes.Repeat([]byte{'c'}, 8)}

	chunks, err := sdp.PackDataInChunks(data, 10)
	if err != nil {
		return // the failure is reported: fine
	}
	total := 0
	for _, c := range chunks {
		b := &batch.Batch{}
		_ = real.Unmarshal(b, c)
		total += len(b.Data)
	}
	if total != len(data) {
		t.Fatalf("GOVC-FINDING F32b: marshal error swallowed: err == nil, %d chunks, %d of %d elements recoverable, first chunk %v", len(chunks), total, len(data), chunks[0])
	}
}
