package networksharding

// Hand-made reproductions for property C44 (run with go test -overlay, see C44_handmade.overlay.json).
// 1. F44:  a preferred peer that is also a seeder is proposed for eviction.
// 2. F44b: uint32 wrap-around of providedPeers in NewListsSharder accepts a configuration whose per-category maxima
//          exceed TargetPeerCount (values from the solver model of NewListsSharder#post:valid-configuration).

import (
	"testing"

	"github.com/ElrondNetwork/elrond-go/config"
	"github.com/ElrondNetwork/elrond-go/core"
	"github.com/ElrondNetwork/elrond-go/testscommon/p2pmocks"
	"github.com/libp2p/go-libp2p-core/peer"
)

func TestGovcHandmade_F44_PreferredSeederIsEvicted(t *testing.T) {
	arg := createMockListSharderArguments()
	arg.P2pConfig.Sharding.MaxSeeders = 0
	preferred := peer.ID("preferred-seeder-0")
	arg.PreferredPeersHolder = &p2pmocks.PeersHolderStub{
		ContainsCalled: func(peerID core.PeerID) bool { return peerID == core.PeerID(preferred) },
	}
	ls, err := NewListsSharder(arg)
	if err != nil {
		t.Fatal(err)
	}
	ls.SetSeeders([]string{"/ip4/127.0.0.1/tcp/9999/p2p/" + core.PeerID(preferred).Pretty()})

	evicted := ls.ComputeEvictionList([]peer.ID{preferred})
	for _, e := range evicted {
		if e == preferred {
			t.Fatalf("GOVC-FINDING F44: preferred peer %q proposed for eviction: %v", preferred, evicted)
		}
	}
}

func TestGovcHandmade_F44b_ProvidedPeersWrapsAround(t *testing.T) {
	arg := createMockListSharderArguments()
	arg.P2pConfig.Sharding = config.ShardingConfig{
		TargetPeerCount:         5,
		MaxIntraShardValidators: 4,
		MaxCrossShardValidators: 4294967295,
		MaxIntraShardObservers:  4294967295,
		MaxCrossShardObservers:  4294967295,
		MaxSeeders:              4294967295,
		MaxFullHistoryObservers: 4294967295,
	}
	ls, err := NewListsSharder(arg)
	if err != nil {
		t.Skipf("configuration rejected: %v", err)
	}
	sum := ls.maxIntraShardValidators + ls.maxCrossShardValidators + ls.maxIntraShardObservers + ls.maxCrossShardObservers +
		ls.maxSeeders + ls.maxFullHistoryObservers + ls.maxUnknown
	if sum != ls.maxPeerCount {
		// 10 cross-shard validators, target 5: nothing is evicted
		pids := make([]peer.ID, 0)
		for i := 0; i < 10; i++ {
			pids = append(pids, peer.ID(string(rune('a'+i))+" validator 1"))
		}
		evicted := ls.ComputeEvictionList(pids)
		t.Fatalf("GOVC-FINDING F44b: accepted configuration with sum of maxima %d != maxPeerCount %d (maxUnknown %d); %d connected, %d evicted, target %d",
			sum, ls.maxPeerCount, ls.maxUnknown, len(pids), len(evicted), ls.maxPeerCount)
	}
}
