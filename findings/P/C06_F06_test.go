package state_test

// Hand-made reproductions for C06 / C07 (run with the helpers of rac/C06_journal_test.go in the same overlay):
//   F06   RemoveAccount(A); SaveAccount(new A with storage); RevertToSnapshot(s > 0): the data trie created for the new A stays in
//         AccountsDB.dataTries under A's address; the restored account carries the old RootHash, loadDataTrie prefers the
//         cached (now emptied) trie: every storage key of the restored account reads as empty. The main root hash IS restored.
//   F06b  RemoveAccount(A) for an account whose storage changed since the last Commit fails ("hash not found": removeDataTrie
//         recreates the data trie from the DB, the new root is only in memory) AFTER removeCode already decremented the code
//         entry: until the caller reverts, an existing account refers to a code entry that is gone / counts one too few (C07).

import (
	"bytes"
	"math/big"
	"testing"

	"github.com/ElrondNetwork/elrond-go/data/state"
)

func reproSave(t *testing.T, adb *state.AccountsDB, addr []byte, f func(ua state.UserAccountHandler)) {
	h, err := adb.LoadAccount(addr)
	if err != nil {
		t.Fatal(err)
	}
	ua := h.(state.UserAccountHandler)
	f(ua)
	if err = adb.SaveAccount(ua); err != nil {
		t.Fatal(err)
	}
}

func reproRead(t *testing.T, adb *state.AccountsDB, addr []byte, key string) string {
	h, err := adb.GetExistingAccount(addr)
	if err != nil {
		t.Fatal(err)
	}
	v, _ := h.(state.UserAccountHandler).DataTrieTracker().RetrieveValue([]byte(key))
	return string(v)
}

func TestRepro_F06_recreated_account_shadows_restored_storage(t *testing.T) {
	adb := racNewAccountsDB()
	A, B := racAddr(0), racAddr(1)
	reproSave(t, adb, A, func(ua state.UserAccountHandler) {
		_ = ua.DataTrieTracker().SaveKeyValue([]byte("key"), []byte("committed value"))
	})
	if _, err := adb.Commit(); err != nil {
		t.Fatal(err)
	}
	reproSave(t, adb, B, func(ua state.UserAccountHandler) { _ = ua.AddToBalance(big.NewInt(1)) }) // any earlier journal entry: snapshot > 0
	snapshot := adb.JournalLen()
	rootAtSnapshot, _ := adb.RootHash()
	if got := reproRead(t, adb, A, "key"); got != "committed value" {
		t.Fatalf("before: %q", got)
	}

	if err := adb.RemoveAccount(A); err != nil {
		t.Fatal(err)
	}
	reproSave(t, adb, A, func(ua state.UserAccountHandler) {
		_ = ua.DataTrieTracker().SaveKeyValue([]byte("other"), []byte("x"))
	})
	if err := adb.RevertToSnapshot(snapshot); err != nil {
		t.Fatal(err)
	}

	root, _ := adb.RootHash()
	t.Logf("root hash restored: %v", bytes.Equal(root, rootAtSnapshot))
	if got := reproRead(t, adb, A, "key"); got != "committed value" {
		t.Errorf("F06: after RevertToSnapshot(%d) storage key of A reads %q, at the snapshot it read %q", snapshot, got, "committed value")
	}
}

func TestRepro_F06b_refused_removal_leaves_code_counter_decremented(t *testing.T) {
	adb := racNewAccountsDB()
	A, B := racAddr(0), racAddr(1)
	code := racCodes[1]
	reproSave(t, adb, A, func(ua state.UserAccountHandler) { ua.SetCode(code) })
	reproSave(t, adb, B, func(ua state.UserAccountHandler) { ua.SetCode(code) })
	if _, err := adb.Commit(); err != nil {
		t.Fatal(err)
	}
	reproSave(t, adb, A, func(ua state.UserAccountHandler) {
		_ = ua.DataTrieTracker().SaveKeyValue([]byte("key"), []byte("not committed yet"))
	})
	refs := func() uint32 {
		leaf, _ := racMainTrie(adb).Get(racHash.Compute(string(code)))
		var ce state.CodeEntry
		_ = racMarsh.Unmarshal(&ce, leaf)
		return ce.NumReferences
	}
	before := refs()
	err := adb.RemoveAccount(A)
	t.Logf("RemoveAccount(A) = %v", err)
	if err == nil {
		t.Skip("removal accepted")
	}
	if _, e := adb.GetExistingAccount(A); e != nil {
		t.Fatalf("A gone after a failed removal: %v", e)
	}
	if after := refs(); after != before {
		t.Errorf("F06b: RemoveAccount failed (%v), A and B still exist and refer to the code, but NumReferences went %d -> %d", err, before, after)
	}
}
