package metachain

// Hand-made reproductions for the two C35 obligations that stay open (run: go test -vet=off -overlay ov.json -run TestC35_F35 ./epochStart/metachain/ with ov.json mapping
// <repo>/epochStart/metachain/zz_c35_findings_test.go to this file):
//   F35a  baseRewardsCreator.addProtocolRewardToMiniBlocks#call-pre:...AddTx:positive-value
//         the protocol sustainability reward transaction is stored unconditionally: with RewardsForProtocolSustainability == 0
//         and no dust a reward transaction with value 0 is created ("no reward transaction has a zero value").
//   F35b  lemma protocol-reward-absorbs-any-dust
//         rewardsCreatorV2.adjustProtocolSustainabilityRewards drops negative dust (only logs it): what was handed out in
//         excess to validators is not taken from the protocol reward, the created total exceeds the computed total.

import (
	"math/big"
	"testing"

	"github.com/ElrondNetwork/elrond-go/core"
	"github.com/ElrondNetwork/elrond-go/data/block"
	"github.com/ElrondNetwork/elrond-go/data/rewardTx"
	"github.com/ElrondNetwork/elrond-go/data/state"
)

func TestC35_F35a_zeroValueProtocolRewardTx(t *testing.T) {
	args := getRewardsCreatorV2Arguments()
	rwd, err := NewRewardsCreatorV2(args)
	if err != nil {
		t.Fatal(err)
	}
	metaBlk := &block.MetaBlock{
		EpochStart: block.EpochStart{Economics: block.Economics{
			TotalSupply:                      big.NewInt(1000),
			TotalToDistribute:                big.NewInt(0),
			TotalNewlyMinted:                 big.NewInt(0),
			RewardsPerBlock:                  big.NewInt(0),
			RewardsForProtocolSustainability: big.NewInt(0),
			NodePrice:                        big.NewInt(0),
		}},
		DevFeesInEpoch: big.NewInt(0),
	}
	// no eligible validators, nothing to distribute, no leader fees: consistent economics, everything is zero
	// (every shard needs a list, even an empty one: computeShardsPower dereferences shardsTopUp[shard] without a nil check)
	vInfo := map[uint32][]*state.ValidatorInfo{core.MetachainShardId: {}}
	for s := uint32(0); s < args.ShardCoordinator.NumberOfShards(); s++ {
		vInfo[s] = []*state.ValidatorInfo{}
	}
	mbs, err := rwd.CreateRewardsMiniBlocks(metaBlk, vInfo, &metaBlk.EpochStart.Economics)
	if err != nil {
		t.Fatal(err)
	}
	zeroTxs := 0
	for _, mb := range mbs {
		for _, h := range mb.TxHashes {
			tx, errGet := rwd.currTxs.GetTx(h)
			if errGet != nil {
				t.Fatal(errGet)
			}
			if tx.GetValue().Sign() <= 0 {
				zeroTxs++
				t.Logf("C35-REPRO F35a: reward tx with value %s to %x", tx.GetValue().String(), tx.GetRcvAddr())
			}
		}
	}
	if zeroTxs == 0 {
		t.Fatal("not reproduced: no zero-value reward transaction")
	}
}

func TestC35_F35b_negativeDustDropped(t *testing.T) {
	args := getRewardsCreatorV2Arguments()
	rwd, err := NewRewardsCreatorV2(args)
	if err != nil {
		t.Fatal(err)
	}
	protTx := &rewardTx.RewardTx{Value: big.NewInt(10)}
	dust := big.NewInt(-4) // 4 more than computed were handed to validators
	rwd.adjustProtocolSustainabilityRewards(protTx, dust)
	t.Logf("C35-REPRO F35b: protocol reward 10, dust -4 -> %s (conservation needs 6)", protTx.Value.String())
	if protTx.Value.Cmp(big.NewInt(6)) == 0 {
		t.Fatal("not reproduced: the negative dust was taken from the protocol reward")
	}
}
