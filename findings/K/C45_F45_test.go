package data

// Hand-made reproduction of finding F45 (property C45), obligation lemma.bigint-marshal-any-buffer
// (solver models: a = 0 with buf[1] != 0; a = 0 with len(buf) == 1).
// Run: see run.sh (go test -overlay puts this file into package data).

import (
	"math/big"
	"testing"
)

func TestF45_ZeroIntoDirtyBufferDoesNotRoundTrip(t *testing.T) {
	c := &BigIntCaster{}
	buf := []byte{0xAA, 0x07} // a reused buffer, exactly Size(0) == 2 bytes
	n, err := c.MarshalTo(big.NewInt(0), buf)
	if err != nil || n != 2 {
		t.Fatalf("unexpected n=%d err=%v", n, err)
	}
	r, err := c.Unmarshal(buf[:n])
	t.Logf("encoding of 0 into dirty buffer: % x -> decoded %v err %v", buf[:n], r, err)
	if err == nil && r != nil && r.Sign() == 0 {
		t.Fatalf("NOT REPRODUCED: round trip held")
	}
	clean := make([]byte, 2)
	_, _ = c.MarshalTo(big.NewInt(0), clean)
	t.Logf("REPRODUCED F45: MarshalTo(0) leaves buf[1] unwritten: dirty buffer gives % x (decodes to %v), zeroed buffer gives % x: encoding of the same value differs", buf[:n], r, clean)
}

func TestF45_ZeroIntoOneByteBufferReportsTwoBytes(t *testing.T) {
	c := &BigIntCaster{}
	buf := make([]byte, 1)
	n, err := c.MarshalTo(big.NewInt(0), buf)
	if err != nil || n <= len(buf) {
		t.Fatalf("NOT REPRODUCED: n=%d err=%v", n, err)
	}
	t.Logf("REPRODUCED F45: MarshalTo(0, 1-byte buffer) returns n=%d > len(buf)=%d, err=nil", n, len(buf))
}
