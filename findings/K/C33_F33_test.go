package preprocess

// Hand-made reproduction of finding F33 (property C33), obligation lemma.estimate-covers-every-body#lemma:fits.
// The estimate (9 bytes per miniblock + 34 per tx hash, calibrated with shard id 999 / type 0) says "fits" for bodies whose
// encoding is above the network message limit (p2p/libp2p maxSendBuffSize = 1 MiB - 64 KiB = 983040), when the body has
// many small miniblocks addressed to the metachain. Run: run.sh <tree> process/block/preprocess C33_F33_test.go -run TestF33

import (
	"testing"

	"github.com/ElrondNetwork/elrond-go/core"
	"github.com/ElrondNetwork/elrond-go/data/block"
	"github.com/ElrondNetwork/elrond-go/marshal"
)

type f33Throttler struct{ max uint32 }

func (t *f33Throttler) GetCurrentMaxSize() uint32 { return t.max }
func (t *f33Throttler) IsInterfaceNil() bool      { return t == nil }

const f33NetworkLimit = (1 << 20) - 64*1024 // p2p/libp2p/netMessenger.go: maxSendBuffSize
const f33ConfiguredMax = 943718            // cmd/node/config/config.toml: BlockSizeThrottleConfig.MaxSizeInBytes

func f33Body(numMiniblocks int, txsPerMiniblock int, typ block.Type) *block.Body {
	body := &block.Body{}
	hash := make([]byte, 32)
	for i := 0; i < numMiniblocks; i++ {
		mb := &block.MiniBlock{SenderShardID: core.MetachainShardId, ReceiverShardID: core.MetachainShardId, Type: typ}
		for j := 0; j < txsPerMiniblock; j++ {
			mb.TxHashes = append(mb.TxHashes, hash)
		}
		body.MiniBlocks = append(body.MiniBlocks, mb)
	}
	return body
}

func f33Check(t *testing.T, numMiniblocks int, txsPerMiniblock int, typ block.Type) {
	m := &marshal.GogoProtoMarshalizer{}
	bsc, err := NewBlockSizeComputation(m, &f33Throttler{max: f33ConfiguredMax}, f33ConfiguredMax)
	if err != nil {
		t.Fatal(err)
	}
	t.Logf("calibration: miniblockSize=%d txSize=%d", bsc.miniblockSize, bsc.txSize)
	if bsc.miniblockSize != 9 || bsc.txSize != 34 {
		t.Fatalf("calibration differs from the proved values 9/34")
	}
	numTxs := numMiniblocks * txsPerMiniblock
	reachedHard := bsc.IsMaxBlockSizeWithoutThrottleReached(numMiniblocks, numTxs)
	reached := bsc.IsMaxBlockSizeReached(numMiniblocks, numTxs)
	buff, err := m.Marshal(f33Body(numMiniblocks, txsPerMiniblock, typ))
	if err != nil {
		t.Fatal(err)
	}
	estimate := 9*numMiniblocks + 34*numTxs
	t.Logf("%d miniblocks x %d txs (meta->meta, type %d): estimate %d, reached=%v/%v, encoded body %d bytes, network limit %d",
		numMiniblocks, txsPerMiniblock, typ, estimate, reached, reachedHard, len(buff), f33NetworkLimit)
	if reached || reachedHard || len(buff) <= f33NetworkLimit {
		t.Fatalf("NOT REPRODUCED")
	}
	t.Logf("REPRODUCED F33: estimator says the body fits (%d <= %d), encoded body is %d bytes > network limit %d (undershoot %d bytes = %.1f per miniblock)",
		estimate, f33ConfiguredMax, len(buff), f33NetworkLimit, len(buff)-estimate, float64(len(buff)-estimate)/float64(numMiniblocks))
}

func TestF33_EmptyMiniblocksToMetachain(t *testing.T) {
	f33Check(t, 104857, 0, block.RewardsBlock)
}

func TestF33_OneTxMiniblocksToMetachain(t *testing.T) {
	f33Check(t, 21946, 1, block.SmartContractResultBlock)
}

// boundary of the proved lemma: up to 3932 miniblocks the margin (983040 - 943718 = 39322) absorbs 10 bytes per miniblock
func TestF33_ProvedBoundHolds(t *testing.T) {
	m := &marshal.GogoProtoMarshalizer{}
	bsc, _ := NewBlockSizeComputation(m, &f33Throttler{max: f33ConfiguredMax}, f33ConfiguredMax)
	n := 3932
	txs := (f33ConfiguredMax - 9*n) / 34
	per := txs / n
	body := f33Body(n, per, block.RewardsBlock)
	buff, _ := m.Marshal(body)
	if bsc.IsMaxBlockSizeWithoutThrottleReached(n, n*per) || len(buff) > f33NetworkLimit {
		t.Fatalf("unexpected: reached or above limit (%d)", len(buff))
	}
	t.Logf("3932 miniblocks x %d txs: estimate %d, encoded %d <= %d", per, 9*n+34*n*per, len(buff), f33NetworkLimit)
}
