#!/bin/sh
# usage: run.sh <repo tree> <package dir relative to tree> <repro file> [-run regexp]
# Runs a reproduction test file inside the package through go test -overlay (the tree is not modified).
set -e
TREE=$1; PKG=$2; FILE=$3; shift 3
HERE=$(cd "$(dirname "$0")" && pwd)
export GOFLAGS=-mod=mod GOPROXY=off GOSUMDB=off GOTOOLCHAIN=local
mkdir -p "$HERE/../tmp"; export TMPDIR="$HERE/../tmp"
OV="$TMPDIR/overlay_$$.json"
printf '{"Replace":{"%s/%s/zz_%s":"%s/%s"}}' "$TREE" "$PKG" "$FILE" "$HERE" "$FILE" > "$OV"
(cd "$TREE" && go test -vet=off -count=1 -overlay "$OV" "./$PKG" -v "$@") ; rc=$?
rm -f "$OV"; exit $rc
