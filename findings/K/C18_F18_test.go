package transaction_test

// Hand-made reproduction of finding F18 (property C18): the intercepted-data hash is the hash of the RECEIVED bytes, and the
// decoder accepts encodings that are not the canonical one. Two different byte strings of equal length that decode to the
// same transaction are both accepted (size check with delta 0 included), both pass CheckValidity with the same real ed25519
// signature (the signature covers the JSON re-encoding of the content), and get different hashes.
// Run: run.sh <tree> process/transaction C18_F18_test.go -run TestF18

import (
	"bytes"
	"math/big"
	"testing"

	"github.com/ElrondNetwork/elrond-go/core/versioning"
	"github.com/ElrondNetwork/elrond-go/crypto/signing"
	"github.com/ElrondNetwork/elrond-go/crypto/signing/ed25519"
	"github.com/ElrondNetwork/elrond-go/crypto/signing/ed25519/singlesig"
	dataTransaction "github.com/ElrondNetwork/elrond-go/data/transaction"
	"github.com/ElrondNetwork/elrond-go/hashing/blake2b"
	"github.com/ElrondNetwork/elrond-go/marshal"
	"github.com/ElrondNetwork/elrond-go/process/mock"
	"github.com/ElrondNetwork/elrond-go/process/smartContract"
	"github.com/ElrondNetwork/elrond-go/process/transaction"
	"github.com/ElrondNetwork/elrond-go/testscommon"
)

var f18Conv = &mock.PubkeyConverterStub{LenCalled: func() int { return 32 }, EncodeCalled: func(b []byte) string { return string(b) }}

type f18Field struct{ raw []byte } // one top-level wire field: tag varint + payload

func f18Varint(b []byte) (uint64, int) {
	var v uint64
	for i := 0; ; i++ {
		v |= uint64(b[i]&0x7f) << (7 * uint(i))
		if b[i] < 0x80 {
			return v, i + 1
		}
	}
}

func f18Split(b []byte) []f18Field {
	var out []f18Field
	for len(b) > 0 {
		tag, n := f18Varint(b)
		end := n
		switch tag & 7 {
		case 0:
			_, m := f18Varint(b[n:])
			end = n + m
		case 2:
			l, m := f18Varint(b[n:])
			end = n + m + int(l)
		default:
			panic("unexpected wire type")
		}
		out = append(out, f18Field{raw: b[:end]})
		b = b[end:]
	}
	return out
}

func f18Intercept(t *testing.T, buff []byte, chainID []byte, version uint32) *transaction.InterceptedTransaction {
	proto := marshal.NewSizeCheckUnmarshalizer(&marshal.GogoProtoMarshalizer{}, 0) // strictest configuration: delta 0
	suite := ed25519.NewEd25519()
	inTx, err := transaction.NewInterceptedTransaction(
		buff, proto, &marshal.JsonMarshalizer{}, blake2b.NewBlake2b(), signing.NewKeyGenerator(suite), &singlesig.Ed25519Signer{},
		f18Conv, mock.NewOneShardCoordinatorMock(), &mock.FeeHandlerStub{},
		&testscommon.WhiteListHandlerStub{}, smartContract.NewArgumentParser(), chainID, false, blake2b.NewBlake2b(),
		versioning.NewTxVersionChecker(version))
	if err != nil {
		t.Fatalf("constructor refused the encoding: %v", err)
	}
	return inTx
}

func TestF18_SameTransactionTwoHashes(t *testing.T) {
	suite := ed25519.NewEd25519()
	kg := signing.NewKeyGenerator(suite)
	sk, pk := kg.GeneratePair()
	pkBytes, _ := pk.ToByteArray()
	tx := &dataTransaction.Transaction{
		Nonce: 7, Value: big.NewInt(0), RcvAddr: bytes.Repeat([]byte{2}, 32), SndAddr: pkBytes,
		GasPrice: 1000000000, GasLimit: 50000, ChainID: []byte("T"), Version: 1,
	}
	toSign, err := tx.GetDataForSigning(f18Conv, &marshal.JsonMarshalizer{})
	if err != nil {
		t.Fatal(err)
	}
	tx.Signature, err = (&singlesig.Ed25519Signer{}).Sign(sk, toSign)
	if err != nil {
		t.Fatal(err)
	}

	canonical, _ := (&marshal.GogoProtoMarshalizer{}).Marshal(tx)
	fields := f18Split(canonical)

	// variant 1: the first two wire fields (Nonce, Value) swapped; same length
	swapped := append([]byte{}, fields[1].raw...)
	swapped = append(swapped, fields[0].raw...)
	for _, f := range fields[2:] {
		swapped = append(swapped, f.raw...)
	}
	// variant 2: Value 0 written as <sign 4a><00> instead of <00><00> (BigIntCaster.Unmarshal ignores the sign byte of a
	// 2-byte zero); same length
	signByte := append([]byte{}, canonical...)
	off := len(fields[0].raw)
	if !bytes.Equal(signByte[off:off+4], []byte{0x12, 0x02, 0x00, 0x00}) {
		t.Fatalf("unexpected canonical Value field % x", signByte[off:off+4])
	}
	signByte[off+2] = 0x4a

	ref := f18Intercept(t, canonical, tx.ChainID, tx.Version)
	if err = ref.CheckValidity(); err != nil {
		t.Fatalf("canonical encoding not valid: %v", err)
	}
	for name, enc := range map[string][]byte{"two fields swapped": swapped, "non-canonical sign byte of zero": signByte} {
		if bytes.Equal(enc, canonical) || len(enc) != len(canonical) {
			t.Fatalf("%s: bad variant", name)
		}
		other := f18Intercept(t, enc, tx.ChainID, tx.Version)
		if err = other.CheckValidity(); err != nil {
			t.Fatalf("NOT REPRODUCED (%s): CheckValidity: %v", name, err)
		}
		sameContent := other.Transaction().(*dataTransaction.Transaction).Equal(ref.Transaction())
		if !sameContent || bytes.Equal(other.Hash(), ref.Hash()) {
			t.Fatalf("NOT REPRODUCED (%s): sameContent=%v sameHash=%v", name, sameContent, bytes.Equal(other.Hash(), ref.Hash()))
		}
		t.Logf("REPRODUCED F18 (%s): both encodings (%d bytes) accepted with size-check delta 0, decode to Equal transactions, same ed25519 signature verifies, hashes differ: %x vs %x",
			name, len(enc), ref.Hash()[:8], other.Hash()[:8])
	}
}
