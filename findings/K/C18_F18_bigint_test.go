package data

// Hand-made reproduction of the BigIntCaster part of finding F18 (property C18), obligations of lemma
// bigint-decoder-accepts-only-canonical: byte strings that are accepted but are not what MarshalTo writes for the decoded value.

import (
	"bytes"
	"math/big"
	"testing"
)

func TestF18_BigIntDecoderAcceptsNonCanonical(t *testing.T) {
	c := &BigIntCaster{}
	cases := []struct {
		name string
		in   []byte
	}{
		{"nil marker with any byte", []byte{0x07}},
		{"zero with any sign byte", []byte{0x4a, 0x00}},
		{"leading zero byte in the magnitude", []byte{0x00, 0x00, 0x05}},
		{"negative zero", []byte{0x01, 0x00, 0x00}},
	}
	for _, k := range cases {
		v, err := c.Unmarshal(k.in)
		if err != nil {
			t.Fatalf("NOT REPRODUCED (%s): refused: %v", k.name, err)
		}
		out := make([]byte, c.Size(v))
		n, _ := c.MarshalTo(v, out)
		if bytes.Equal(out[:n], k.in) {
			t.Fatalf("NOT REPRODUCED (%s): canonical", k.name)
		}
		t.Logf("REPRODUCED F18 (%s): % x accepted, decodes to %v, canonical encoding is % x", k.name, k.in, v, out[:n])
	}
	_ = big.NewInt
}
