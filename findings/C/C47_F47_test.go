package parsing

// Hand-made reproduction of finding F47 (property C47): checkForDuplicates compares the address TEXT, the converters'
// Decode is case-insensitive, so one address written twice (lower case / upper case) is accepted by process() and
// NewAccountsParser. Run (nothing is written to the repository):
//   cd $WT && go test -overlay <ov.json> -vet=off -count=1 -run 'TestC47_' ./genesis/parsing/
// with ov.json = {"Replace":{"$WT/genesis/parsing/zz_c47_f47_test.go":"$VF/repro/C47_F47_test.go"}}

import (
	"bytes"
	"io/ioutil"
	"math/big"
	"os"
	"path/filepath"
	"strings"
	"testing"

	"github.com/ElrondNetwork/elrond-go/core/pubkeyConverter"
	"github.com/ElrondNetwork/elrond-go/genesis/data"
	"github.com/ElrondNetwork/elrond-go/genesis/mock"
)

func c47entry(address string, v int64) *data.InitialAccount {
	return &data.InitialAccount{Address: address, Supply: big.NewInt(v), Balance: big.NewInt(v), StakingValue: big.NewInt(0),
		Delegation: &data.DelegationData{Address: "", Value: big.NewInt(0)}}
}

func TestC47_F47_SameAddressInTwoLetterCasesIsAccepted_Bech32(t *testing.T) {
	conv, _ := pubkeyConverter.NewBech32PubkeyConverter(32)
	lower := conv.Encode(bytes.Repeat([]byte{7}, 32))
	upper := strings.ToUpper(lower)
	ap := &accountsParser{pubkeyConverter: conv, keyGenerator: &mock.KeyGeneratorStub{}, entireSupply: big.NewInt(10)}
	ap.initialAccounts = []*data.InitialAccount{c47entry(lower, 4), c47entry(upper, 6)}
	err := ap.process()
	t.Logf("texts %q / %q, process() = %v", lower, upper, err)
	if err != nil {
		t.Skip("rejected: defect not present")
	}
	a, b := ap.initialAccounts[0].AddressBytes(), ap.initialAccounts[1].AddressBytes()
	if bytes.Equal(a, b) {
		t.Fatalf("C47 violated: two accepted entries denote the same address %x (supply of the address is split over two entries)", a)
	}
}

func TestC47_F47_SameAddressInTwoLetterCasesIsAccepted_Hex_FromFile(t *testing.T) {
	conv, _ := pubkeyConverter.NewHexPubkeyConverter(32)
	lower := strings.Repeat("ab", 32)
	upper := strings.ToUpper(lower)
	js := `[{"address":"` + lower + `","supply":"4","balance":"4","stakingvalue":"0","delegation":{"address":"","value":"0"}},` +
		`{"address":"` + upper + `","supply":"6","balance":"6","stakingvalue":"0","delegation":{"address":"","value":"0"}}]`
	dir, _ := ioutil.TempDir(os.Getenv("TMPDIR"), "c47")
	defer os.RemoveAll(dir)
	file := filepath.Join(dir, "genesis.json")
	_ = ioutil.WriteFile(file, []byte(js), 0o600)
	ap, err := NewAccountsParser(file, big.NewInt(10), conv, &mock.KeyGeneratorStub{})
	t.Logf("NewAccountsParser = %v", err)
	if err != nil {
		t.Skip("rejected: defect not present")
	}
	a, b := ap.initialAccounts[0].AddressBytes(), ap.initialAccounts[1].AddressBytes()
	if bytes.Equal(a, b) {
		t.Fatalf("C47 violated: genesis file accepted with one address listed twice (%x)", a)
	}
}

// Observation (robustness, outside the property's claim): an entry without a "delegation" object is decoded with
// Delegation == nil (UnmarshalJSON copies the pointer) and parseDelegationElement dereferences it.
func TestC47_Observation_EntryWithoutDelegationObjectPanics(t *testing.T) {
	conv, _ := pubkeyConverter.NewHexPubkeyConverter(32)
	js := `[{"address":"` + strings.Repeat("ab", 32) + `","supply":"4","balance":"4","stakingvalue":"0"}]`
	dir, _ := ioutil.TempDir(os.Getenv("TMPDIR"), "c47")
	defer os.RemoveAll(dir)
	file := filepath.Join(dir, "genesis.json")
	_ = ioutil.WriteFile(file, []byte(js), 0o600)
	defer func() {
		if r := recover(); r != nil {
			t.Fatalf("NewAccountsParser panics on an entry without delegation object: %v", r)
		}
	}()
	_, err := NewAccountsParser(file, big.NewInt(4), conv, &mock.KeyGeneratorStub{})
	t.Logf("NewAccountsParser = %v", err)
}
