package pubkeyConverter

// Hand-made reproduction of finding F48 (property C48): NewBech32PubkeyConverter accepts every even address length, but
// for lengths above 50 bytes the encoded text is longer than 90 characters and bech32.Decode refuses it: the converter
// cannot decode its own output. Also shows the case-insensitivity of both Decode functions (cause of F47).
//   cd $WT && go test -overlay $VF/repro/C48_F48.overlay.json -vet=off -count=1 -run 'TestC48_' ./core/pubkeyConverter/

import (
	"bytes"
	"strings"
	"testing"
)

func TestC48_F48_RoundTripFailsAbove50Bytes(t *testing.T) {
	for _, n := range []int{32, 50, 52, 64} {
		conv, err := NewBech32PubkeyConverter(n)
		if err != nil {
			t.Fatalf("length %d not accepted: %v", n, err)
		}
		b := bytes.Repeat([]byte{0xA5}, n)
		s := conv.Encode(b)
		r, err := conv.Decode(s)
		t.Logf("len %d: text of %d characters, Decode err = %v", n, len(s), err)
		if n <= 50 && (err != nil || !bytes.Equal(r, b)) {
			t.Fatalf("round trip must hold up to 50 bytes")
		}
		if n > 50 && err != nil {
			t.Errorf("C48 violated for configured length %d: Decode(Encode(b)) = %v", n, err)
		}
	}
}

func TestC48_DecodeIsCaseInsensitive(t *testing.T) {
	conv, _ := NewBech32PubkeyConverter(32)
	s := conv.Encode(bytes.Repeat([]byte{7}, 32))
	a, errA := conv.Decode(s)
	b, errB := conv.Decode(strings.ToUpper(s))
	t.Logf("bech32: %v %v equal=%v", errA, errB, bytes.Equal(a, b))
	hc, _ := NewHexPubkeyConverter(32)
	h := hc.Encode(bytes.Repeat([]byte{0xab}, 32))
	c, errC := hc.Decode(h)
	d, errD := hc.Decode(strings.ToUpper(h))
	t.Logf("hex: %v %v equal=%v", errC, errD, bytes.Equal(c, d))
}
