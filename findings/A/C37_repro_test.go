package rating_test

// Hand-made reproductions for C37 (run as an overlay test in package process/rating, external test package):
//   cd $WT && go test -overlay ov.json -vet=off -run TestC37 ./process/rating/
//   ov.json: {"Replace":{"$WT/process/rating/zz_c37_repro_test.go":"<this file>"}}
// Obligations: rating.verifyRatingsData#post:accepted-increase-steps-nonneg, #post:accepted-penalty-at-least-1

import (
	"math"
	"testing"

	"github.com/ElrondNetwork/elrond-go/process/rating"
)

// a configuration accepted by NewBlockSigningRater whose "increase" lowers the rating
func TestC37NegativeIncreaseStepAccepted(t *testing.T) {
	rd := createDefaultRatingsData()
	rd.ShardRatingsStepDataProperty = &mockStep{pi: -7, pd: -2, vi: -3, vd: -4, pen: 1.1}
	bsr, err := rating.NewBlockSigningRater(rd)
	if err != nil {
		t.Fatal("rejected:", err)
	}
	cur := uint32(50)
	got := bsr.ComputeIncreaseProposer(0, cur)
	t.Logf("ComputeIncreaseProposer(%d) = %d, ComputeIncreaseValidator = %d", cur, got, bsr.ComputeIncreaseValidator(0, cur))
	if got >= cur {
		t.Fatal("not reproduced")
	}
}

// NaN penalty passes `penalty < 1`; the streak then turns the decrease into int32(NaN)
func TestC37NaNPenaltyAccepted(t *testing.T) {
	rd := createDefaultRatingsData()
	rd.ShardRatingsStepDataProperty = &mockStep{pi: 1, pd: -2, vi: 1, vd: -4, pen: float32(math.NaN())}
	bsr, err := rating.NewBlockSigningRater(rd)
	if err != nil {
		t.Fatal("rejected:", err)
	}
	cur := uint32(50)
	t.Logf("ComputeDecreaseProposer streak 0: %d, streak 1: %d, streak 2: %d (min %d)", bsr.ComputeDecreaseProposer(0, cur, 0),
		bsr.ComputeDecreaseProposer(0, cur, 1), bsr.ComputeDecreaseProposer(0, cur, 2), minRating)
}

type mockStep struct {
	pi, pd, vi, vd int32
	pen            float32
}

func (m *mockStep) ProposerIncreaseRatingStep() int32       { return m.pi }
func (m *mockStep) ProposerDecreaseRatingStep() int32       { return m.pd }
func (m *mockStep) ValidatorIncreaseRatingStep() int32      { return m.vi }
func (m *mockStep) ValidatorDecreaseRatingStep() int32      { return m.vd }
func (m *mockStep) ConsecutiveMissedBlocksPenalty() float32 { return m.pen }
