package floodPreventers

import (
	"math"
	"testing"

	"github.com/ElrondNetwork/elrond-go/testscommon"
)

// hand-made reproduction for C42 (ApplyConsensusSize is outside the verifier's subset: defer after early returns)
func TestC42ApplyConsensusSizeWrapsBelowBase(t *testing.T) {
	arg := ArgQuotaFloodPreventer{
		Name: "x", Cacher: testscommon.NewCacherStub(), StatusHandlers: nil,
		MaxTotalSizePerPeer: 1000, PercentReserved: 0, IncreaseFactor: 1, IncreaseThreshold: 0,
		BaseMaxNumMessagesPerPeer: math.MaxUint32,
	}
	qfp, err := NewQuotaFloodPreventer(arg)
	if err != nil {
		t.Fatal(err)
	}
	qfp.ApplyConsensusSize(1)
	t.Logf("base=%d computed=%d", qfp.baseMaxNumMessagesPerPeer, qfp.computedMaxNumMessagesPerPeer)
	if qfp.computedMaxNumMessagesPerPeer >= qfp.baseMaxNumMessagesPerPeer {
		t.Fatal("no wrap")
	}
}

func TestC42NaNPercentAccepted(t *testing.T) {
	nan := float32(math.NaN())
	arg := ArgQuotaFloodPreventer{
		Name: "x", Cacher: testscommon.NewCacherStub(), StatusHandlers: nil,
		MaxTotalSizePerPeer: 1, PercentReserved: nan, IncreaseFactor: nan, IncreaseThreshold: 0,
		BaseMaxNumMessagesPerPeer: 1,
	}
	qfp, err := NewQuotaFloodPreventer(arg)
	if err != nil {
		t.Fatal("NaN rejected: ", err)
	}
	// byte quota 1: is a count of 1000 bytes "reached"?
	t.Logf("isMaximumReached(1, 1000) = %v", qfp.isMaximumReached(1, 1000))
	t.Logf("isMaximumReached(1, 1<<60) = %v", qfp.isMaximumReached(1, 1<<60))
}
