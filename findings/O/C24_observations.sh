#!/bin/sh
# usage: C24_observations.sh <repo checkout>   (runs the hand-made reproduction against the real code, nothing is written into the checkout)
REPO=${1:-/repo}; HERE=$(cd "$(dirname "$0")" && pwd)
export GOFLAGS=-mod=mod GOPROXY=off GOSUMDB=off GOTOOLCHAIN=local
T=$(mktemp -d); trap 'rm -rf $T' EXIT
printf '{"Replace":{"%s/process/transaction/c24_observations_test.go":"%s/C24_observations_test.go"}}' "$REPO" "$HERE" > $T/overlay.json
cd $REPO && TMPDIR=$T go test -vet=off -count=1 -overlay $T/overlay.json -run 'TestC24_' -v ./process/transaction/ 2>&1 | grep -v "^=== \|^--- PASS\|INFO\|WARN\|DEBUG"
