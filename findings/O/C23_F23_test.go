package transaction_test

// Hand-made reproduction of finding F23 (property C23), run with C23_F23.sh <checkout>.
// checkTxValues compares the user names BEFORE the nonce, and ProcessTransaction routes ErrUserNameDoesNotMatch (relayed
// transactions enabled) to executingFailedTransaction: a transfer with a stale - or future - nonce whose receiver user name
// does not match is charged the fee and bumps the sender nonce, and is charged again every time it is processed again.

import (
	"fmt"
	"math/big"
	"testing"

	"github.com/ElrondNetwork/elrond-go/data/state"
	"github.com/ElrondNetwork/elrond-go/data/transaction"
	"github.com/ElrondNetwork/elrond-go/process"
	"github.com/ElrondNetwork/elrond-go/process/mock"
	txproc "github.com/ElrondNetwork/elrond-go/process/transaction"
	vmcommon "github.com/ElrondNetwork/elrond-vm-common"
)

func runF23(t *testing.T, txNonce uint64) {
	tx := transaction.Transaction{Nonce: txNonce, SndAddr: []byte("SRC"), RcvAddr: []byte("DST"), Value: big.NewInt(1), GasPrice: 1, GasLimit: 10, RcvUserName: []byte("not-the-receivers-name")}
	acntSrc, _ := state.NewUserAccount(tx.SndAddr)
	acntDst, _ := state.NewUserAccount(tx.RcvAddr)
	acntSrc.Nonce = 7
	acntSrc.Balance = big.NewInt(1000)
	acntDst.Balance = big.NewInt(0)
	acntDst.SetUserName([]byte("receiver"))

	args := createArgsForTxProcessor()
	adb := createAccountStub(tx.SndAddr, tx.RcvAddr, acntSrc, acntDst)
	adb.SaveAccountCalled = func(account vmcommon.AccountHandler) error { return nil }
	args.Accounts = adb
	fees := big.NewInt(0)
	args.TxFeeHandler = &mock.FeeAccumulatorStub{ProcessTransactionFeeCalled: func(cost *big.Int, devFee *big.Int, hash []byte) { fees.Add(fees, cost) }}
	args.EconomicsFee = &mock.FeeHandlerStub{
		CheckValidityTxValuesCalled: func(tx process.TransactionWithFeeHandler) error { return nil },
		ComputeMoveBalanceFeeCalled: func(tx process.TransactionWithFeeHandler) *big.Int { return big.NewInt(10) },
		ComputeTxFeeCalled:          func(tx process.TransactionWithFeeHandler) *big.Int { return big.NewInt(10) },
	}
	execTx, _ := txproc.NewTxProcessor(args)
	execTx.EpochConfirmed(0, 0) // relayed transactions enabled (enable epoch 0)

	for round := 1; round <= 3; round++ {
		_, err := execTx.ProcessTransaction(&tx)
		fmt.Printf("C23-F23 tx nonce %d, processing #%d: err=%v  sender nonce=%d balance=%v  fees=%v\n", txNonce, round, err, acntSrc.Nonce, acntSrc.Balance, fees)
	}
	if acntSrc.Nonce == 7 && acntSrc.Balance.Cmp(big.NewInt(1000)) == 0 {
		t.Fatal("not reproduced: nothing was charged")
	}
	fmt.Printf("C23-F23 CONFIRMED: account nonce was 7, transaction nonce %d (never the account's), yet the sender paid %v and its nonce moved to %d\n", txNonce, big.NewInt(0).Sub(big.NewInt(1000), acntSrc.Balance), acntSrc.Nonce)
}

func TestC23_F23_StaleNonceWithWrongUserNameIsCharged(t *testing.T)  { runF23(t, 3) }
func TestC23_F23_FutureNonceWithWrongUserNameIsCharged(t *testing.T) { runF23(t, 100) }
