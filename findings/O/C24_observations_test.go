package transaction_test

// Hand-made reproduction for C24 (run with go test -overlay, see C24_observations.sh).
// Observation 1: with the bech32 address converter, addresses whose length is not the configured one are all written as ""
//   into the signing bytes: two transactions that differ only in such an address have identical signing bytes.
// Observation 2: InterceptedTransaction.verifyIfRelayedTxV2 verifies the inner user signature WITHOUT running integrity()
//   on the inner transaction: an inner receiver of a wrong length is accepted, and the verified message is the same for
//   every wrong-length receiver (the user signature does not cover the receiver there).
// Observation 3: chain IDs that are not valid UTF-8 collide in the signing bytes (encoding/json writes U+FFFD).

import (
	"bytes"
	"encoding/hex"
	"fmt"
	"math/big"
	"testing"

	"github.com/ElrondNetwork/elrond-go/core"
	"github.com/ElrondNetwork/elrond-go/core/pubkeyConverter"
	"github.com/ElrondNetwork/elrond-go/core/versioning"
	"github.com/ElrondNetwork/elrond-go/crypto"
	dataTransaction "github.com/ElrondNetwork/elrond-go/data/transaction"
	"github.com/ElrondNetwork/elrond-go/marshal"
	"github.com/ElrondNetwork/elrond-go/process"
	"github.com/ElrondNetwork/elrond-go/process/mock"
	"github.com/ElrondNetwork/elrond-go/process/smartContract"
	"github.com/ElrondNetwork/elrond-go/process/transaction"
	"github.com/ElrondNetwork/elrond-go/testscommon"
)

func TestC24_WrongLengthAddressesCollide(t *testing.T) {
	conv, _ := pubkeyConverter.NewBech32PubkeyConverter(32)
	m := &marshal.TxJsonMarshalizer{}
	tx1 := &dataTransaction.Transaction{Nonce: 1, Value: big.NewInt(2), RcvAddr: bytes.Repeat([]byte{1}, 31), SndAddr: bytes.Repeat([]byte{7}, 32), GasPrice: 3, GasLimit: 4, ChainID: []byte("1"), Version: 1}
	tx2 := &dataTransaction.Transaction{Nonce: 1, Value: big.NewInt(2), RcvAddr: bytes.Repeat([]byte{2}, 33), SndAddr: bytes.Repeat([]byte{7}, 32), GasPrice: 3, GasLimit: 4, ChainID: []byte("1"), Version: 1}
	b1, e1 := tx1.GetDataForSigning(conv, m)
	b2, e2 := tx2.GetDataForSigning(conv, m)
	fmt.Printf("C24-OBS1 err=%v,%v\n  %s\n  %s\n", e1, e2, b1, b2)
	if e1 == nil && e2 == nil && bytes.Equal(b1, b2) {
		fmt.Println("C24-OBS1 CONFIRMED: different receivers, identical signing bytes")
	} else {
		t.Fatal("not reproduced")
	}
}

func TestC24_InvalidUTF8ChainIDsCollide(t *testing.T) {
	conv, _ := pubkeyConverter.NewBech32PubkeyConverter(32)
	m := &marshal.TxJsonMarshalizer{}
	tx1 := &dataTransaction.Transaction{Nonce: 1, Value: big.NewInt(2), RcvAddr: bytes.Repeat([]byte{1}, 32), SndAddr: bytes.Repeat([]byte{7}, 32), GasPrice: 3, GasLimit: 4, ChainID: []byte{0xff}, Version: 1}
	tx2 := &dataTransaction.Transaction{Nonce: 1, Value: big.NewInt(2), RcvAddr: bytes.Repeat([]byte{1}, 32), SndAddr: bytes.Repeat([]byte{7}, 32), GasPrice: 3, GasLimit: 4, ChainID: []byte{0xfe}, Version: 1}
	b1, _ := tx1.GetDataForSigning(conv, m)
	b2, _ := tx2.GetDataForSigning(conv, m)
	if bytes.Equal(b1, b2) {
		fmt.Printf("C24-OBS3 CONFIRMED: chain IDs ff / fe, identical signing bytes %s\n", b1)
	} else {
		t.Fatal("not reproduced")
	}
}

func relayedV2(innerRcv []byte, verified *[][]byte) (*transaction.InterceptedTransaction, error) {
	conv, _ := pubkeyConverter.NewBech32PubkeyConverter(32)
	relayer := bytes.Repeat([]byte{9}, 32)
	user := bytes.Repeat([]byte{7}, 32)
	chainID := []byte("chain")
	tx := &dataTransaction.Transaction{
		Nonce: 1, Value: big.NewInt(0), GasLimit: 3, GasPrice: 4, RcvAddr: user, SndAddr: relayer,
		Signature: []byte("relayer-sig"), ChainID: chainID, Version: 1,
		Data: []byte(core.RelayedTransactionV2 + "@" + hex.EncodeToString(innerRcv) + "@" + hex.EncodeToString(big.NewInt(5).Bytes()) + "@" + hex.EncodeToString([]byte("hello")) + "@" + hex.EncodeToString([]byte("user-sig"))),
	}
	protoM := &mock.MarshalizerMock{}
	txBuff, _ := protoM.Marshal(tx)
	signer := &mock.SignerMock{VerifyStub: func(public crypto.PublicKey, msg []byte, sig []byte) error {
		*verified = append(*verified, append([]byte(string(sig)+" over "), msg...))
		return nil // stands for: the signature is valid for exactly this message
	}}
	keyGen := &mock.SingleSignKeyGenMock{PublicKeyFromByteArrayCalled: func(b []byte) (crypto.PublicKey, error) { return &mock.SingleSignPublicKey{}, nil }}
	return transaction.NewInterceptedTransaction(txBuff, protoM, &marshal.TxJsonMarshalizer{}, mock.HasherMock{}, keyGen, signer, conv,
		mock.NewOneShardCoordinatorMock(), &mock.FeeHandlerStub{CheckValidityTxValuesCalled: func(tx process.TransactionWithFeeHandler) error { return nil }},
		&testscommon.WhiteListHandlerStub{}, smartContract.NewArgumentParser(), chainID, false, mock.HasherMock{}, versioning.NewTxVersionChecker(1))
}

func TestC24_RelayedV2InnerReceiverNotCovered(t *testing.T) {
	var v1, v2 [][]byte
	i1, err := relayedV2(bytes.Repeat([]byte{1}, 31), &v1)
	if err != nil {
		t.Fatal(err)
	}
	i2, _ := relayedV2(bytes.Repeat([]byte{2}, 20), &v2)
	e1 := i1.CheckValidity()
	e2 := i2.CheckValidity()
	fmt.Printf("C24-OBS2 CheckValidity: %v / %v\n", e1, e2)
	for _, m := range v1 {
		fmt.Printf("  inner receiver 31x01: %s\n", m)
	}
	for _, m := range v2 {
		fmt.Printf("  inner receiver 20x02: %s\n", m)
	}
	if e1 == nil && e2 == nil && len(v1) == 2 && len(v2) == 2 && bytes.Equal(v1[1], v2[1]) {
		fmt.Println("C24-OBS2 CONFIRMED: relayed-v2 inner transactions with different (wrong-length) receivers are accepted with the same user signature over the same message")
	} else {
		t.Fatal("not reproduced")
	}
}
