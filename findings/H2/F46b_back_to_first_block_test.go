package dblookupext

// Residual of F46 after the repair (dedup key = epoch, header hash, miniblock hash): block A recorded, competing block B
// recorded (A dropped), then A committed again (B dropped). The third record hits the still-cached key (7, A, M) and is
// skipped, so the lookup keeps reporting B.
// Run: cd $WT && go test -overlay <ov.json> -vet=off -run TestVerifF46b ./core/dblookupext/

import (
	"testing"

	"github.com/ElrondNetwork/elrond-go/data/block"
)

func TestVerifF46b_BackToFirstBlock(t *testing.T) {
	repo, err := NewHistoryRepository(createMockHistoryRepoArgs(7))
	if err != nil {
		t.Fatal(err)
	}
	mb := &block.MiniBlock{SenderShardID: 0, ReceiverShardID: 0, TxHashes: [][]byte{[]byte("tx1")}}
	body := &block.Body{MiniBlocks: []*block.MiniBlock{mb}}
	hdr := &block.Header{Epoch: 7, Nonce: 10}
	_ = repo.RecordBlock([]byte("blockA"), hdr, body, nil, nil)
	_ = repo.RecordBlock([]byte("blockB"), hdr, body, nil, nil)
	md, _ := repo.GetMiniblockMetadataByTxHash([]byte("tx1"))
	t.Logf("after A, B: lookup reports %q", md.HeaderHash)
	if string(md.HeaderHash) != "blockB" {
		t.Fatalf("F46 not repaired: %q", md.HeaderHash)
	}
	_ = repo.RecordBlock([]byte("blockA"), hdr, body, nil, nil)
	md, _ = repo.GetMiniblockMetadataByTxHash([]byte("tx1"))
	t.Logf("after A, B, A: lookup reports %q", md.HeaderHash)
	if string(md.HeaderHash) != "blockA" {
		t.Fatalf("C46 violated (residual): most recently committed block is blockA, lookup reports %q", md.HeaderHash)
	}
}
